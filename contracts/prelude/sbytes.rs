// Trusted prelude "sbytes": byte-level view of an owned String for the braille highlight code (std String/str semantics).
// A braille-pattern character (U+2800..U+28FF) is THREE bytes in UTF-8; other characters may be 1..4 bytes.

pub uninterp spec fn sbytes(s: &String) -> Seq<u8>;
pub uninterp spec fn s_boundary(s: &String, i: int) -> bool;          // String::is_char_boundary
pub uninterp spec fn s_char_at(s: &String, i: int) -> char;           // the char starting at boundary i
pub open spec fn is_cell(c: char) -> bool { 0x2800 <= c as u32 <= 0x28FF }
pub open spec fn is_hl(c: char) -> bool { 0x28C0 <= c as u32 <= 0x28FF }      // braille.rs is_highlighted (proved for every char by Kani unit U20a)

/// std: 0 and len are boundaries, nothing beyond len is
pub proof fn axiom_s_boundaries(s: &String)
    ensures s_boundary(s, 0), s_boundary(s, sbytes(s).len() as int), forall|i: int| i > sbytes(s).len() ==> !s_boundary(s, i)
{ admit(); }
/// UTF-8: a braille cell at boundary i occupies exactly bytes i, i+1, i+2
pub proof fn axiom_cell_is_three_bytes(s: &String, i: int)
    ensures 0 <= i < sbytes(s).len() && s_boundary(s, i) && is_cell(s_char_at(s, i))
            ==> i + 3 <= sbytes(s).len() && s_boundary(s, i + 3) && !s_boundary(s, i + 1) && !s_boundary(s, i + 2)
{ admit(); }

#[verifier::external_body]
pub fn vs_len(s: &String) -> (r: usize) ensures r == sbytes(s).len() { s.len() }
/// `s.is_char_boundary(i)` (total: false beyond the end)
#[verifier::external_body]
pub fn vs_is_char_boundary(s: &String, i: usize) -> (r: bool) ensures r == s_boundary(s, i as int) { s.is_char_boundary(i) }
/// `s[a..b].chars().next().unwrap()` for a one-character slice: panics unless a..b is in range, on boundaries and non-empty
#[verifier::external_body]
pub fn vs_first_char_of(s: &String, a: usize, b: usize) -> (r: char)
    requires a < b <= sbytes(s).len(), s_boundary(s, a as int), s_boundary(s, b as int)
    ensures r == s_char_at(s, a as int)
{ s[a..b].chars().next().unwrap() }
/// `&s[a..b]`
pub uninterp spec fn sub_of(t: &str, s: &String, a: int, b: int) -> bool;
#[verifier::external_body]
pub fn vs_slice<'a>(s: &'a String, a: usize, b: usize) -> (r: &'a str)
    requires a <= b <= sbytes(s).len(), s_boundary(s, a as int), s_boundary(s, b as int)
    ensures sub_of(r, s, a as int, b as int)
{ &s[a..b] }
/// `s.replace_range(a..b, rep)` where the replaced slice and the replacement have the same length (both one braille cell):
/// all lengths and boundaries stay where they were, only the character at a changes
#[verifier::external_body]
pub fn vs_replace_cell(s: &mut String, a: usize, b: usize, rep: char)
    requires a + 3 == b, b <= sbytes(old(s)).len(), s_boundary(old(s), a as int), s_boundary(old(s), b as int), is_cell(rep)
    ensures sbytes(final(s)).len() == sbytes(old(s)).len(),
            forall|i: int| s_boundary(final(s), i) == s_boundary(old(s), i),
            s_char_at(final(s), a as int) == rep,
            forall|i: int| i != a ==> s_char_at(final(s), i) == s_char_at(old(s), i),
{ let r = rep.to_string(); s.replace_range(a..b, &r) }

// ---- &str side (uses bytes_of / is_boundary of prelude "bytes") and the link between a slice and its String ----------
pub uninterp spec fn t_char_at(t: &str, i: int) -> char;
/// `&s[a..b]` shares bytes, boundaries and characters with s (std)
pub proof fn axiom_sub_of(t: &str, s: &String, a: int, b: int)
    ensures sub_of(t, s, a, b) ==> bytes_of(t).len() == b - a
            && (forall|i: int| 0 <= i <= b - a ==> (#[trigger] is_boundary(t, i) <==> s_boundary(s, a + i)))
            && (forall|i: int| 0 <= i < b - a ==> #[trigger] t_char_at(t, i) == s_char_at(s, a + i))
{ admit(); }
/// the last n characters of t are braille cells: boundaries at len-3k (k = 0..n) and a cell at each len-3k (k = 1..n)
pub open spec fn ends_with_cells(t: &str, n: int) -> bool {
    0 <= n && 3 * n <= bytes_of(t).len()
    && (forall|k: int| 0 <= k <= n ==> #[trigger] is_boundary(t, bytes_of(t).len() - 3 * k))
    && (forall|k: int| 1 <= k <= n ==> is_cell(#[trigger] t_char_at(t, bytes_of(t).len() - 3 * k)))
}

// ---- character counting ---------------------------------------------------------------------------------------------
/// number of characters in the byte range [a, b) of s (a, b boundaries)
pub uninterp spec fn nchars(s: &String, a: int, b: int) -> nat;
/// std: counting is additive over adjacent ranges and empty ranges count 0
pub proof fn axiom_nchars_additive(s: &String, a: int, b: int, c: int)
    ensures 0 <= a <= b <= c <= sbytes(s).len() && s_boundary(s, a) && s_boundary(s, b) && s_boundary(s, c)
            ==> nchars(s, a, c) == nchars(s, a, b) + nchars(s, b, c),
            nchars(s, a, a) == 0,
            a <= b ==> nchars(s, a, b) <= b - a,          // every character has at least one byte
{ admit(); }
/// `s[a..b].chars().count()`
#[verifier::external_body]
pub fn vs_count_chars(s: &String, a: usize, b: usize) -> (r: usize)
    requires a <= b <= sbytes(s).len(), s_boundary(s, a as int), s_boundary(s, b as int)
    ensures r == nchars(s, a as int, b as int)
{ s[a..b].chars().count() }
/// `s.find(is_highlighted)` / `s.rfind(is_highlighted)` (std, same predicate): first / last character that satisfies it
pub open spec fn first_hl_at(s: &String, start: int) -> bool {
    0 <= start < sbytes(s).len() && s_boundary(s, start) && is_hl(s_char_at(s, start))
    && forall|j: int| 0 <= j < start && s_boundary(s, j) ==> !is_hl(#[trigger] s_char_at(s, j))
}
#[verifier::external_body]
pub fn vs_find_hl(s: &String) -> (r: Option<usize>)
    ensures r.is_some() ==> first_hl_at(s, r.unwrap() as int),
            r.is_none() ==> forall|j: int| 0 <= j < sbytes(s).len() && s_boundary(s, j) ==> !is_hl(#[trigger] s_char_at(s, j)),
{ unimplemented!() }
#[verifier::external_body]
pub fn vs_rfind_hl(s: &String) -> (r: Option<usize>)
    ensures r.is_some() ==> r.unwrap() < sbytes(s).len() && s_boundary(s, r.unwrap() as int) && is_hl(s_char_at(s, r.unwrap() as int)),
            r.is_none() ==> forall|j: int| 0 <= j < sbytes(s).len() && s_boundary(s, j) ==> !is_hl(#[trigger] s_char_at(s, j)),
{ unimplemented!() }

// ---- `t.chars().rev().peekable()` as a facade ------------------------------------------------------------------------
/// the characters of t in reverse order
pub uninterp spec fn rev_chars(t: &str) -> Seq<char>;
/// UTF-8: if the last n characters of t are braille cells, they occupy the last 3n bytes (cell k from the end at len-3k)
pub proof fn axiom_trailing_cells(t: &str, n: int)
    ensures 0 <= n <= rev_chars(t).len() && (forall|k: int| 0 <= k < n ==> is_cell(#[trigger] rev_chars(t)[k])) ==> ends_with_cells(t, n)
{ admit(); }
/// std: a str has at most isize::MAX bytes, hence at most that many characters
pub proof fn axiom_rev_len(t: &str) ensures rev_chars(t).len() <= isize::MAX { admit(); }
pub struct RevPeek { pub rest: Ghost<Seq<char>> }
impl RevPeek {
    /// `prefix.peek() == Some(&c)`
    #[verifier::external_body]
    pub fn vpeek_is(&self, c: char) -> (r: bool) ensures r == (self.rest@.len() > 0 && self.rest@[0] == c) { unimplemented!() }
    /// `[Some(&a), Some(&b), Some(&c)].contains(&prefix.peek())`
    #[verifier::external_body]
    pub fn vpeek_in3(&self, a: char, b: char, c: char) -> (r: bool)
        ensures r == (self.rest@.len() > 0 && (self.rest@[0] == a || self.rest@[0] == b || self.rest@[0] == c)) { unimplemented!() }
    /// `prefix.next()`
    #[verifier::external_body]
    pub fn vnext(&mut self) -> (r: Option<char>)
        ensures old(self).rest@.len() == 0 ==> r.is_none() && final(self).rest@ == old(self).rest@,
                old(self).rest@.len() > 0 ==> r == Some(old(self).rest@[0]) && final(self).rest@ == old(self).rest@.subrange(1, old(self).rest@.len() as int),
    { unimplemented!() }
}
/// `t.chars().rev().peekable()`
#[verifier::external_body]
pub fn vshim_rev_peekable(t: &str) -> (r: RevPeek) ensures r.rest@ == rev_chars(t) { unimplemented!() }
/// `opt == Some(c)` on Option<char>
pub fn vopt_is(o: Option<char>, c: char) -> (r: bool) ensures r == (o == Some(c)) { match o { Some(x) => x == c, None => false } }
