// Trusted prelude "str": shims for the std str/String methods Verus cannot take directly (R5).  Each shim's
// specification is the documented meaning of the std method over the string's character sequence (s@ : Seq<char>).

pub open spec fn seq_starts_with(s: Seq<char>, p: Seq<char>) -> bool {
    p.len() <= s.len() && s.subrange(0, p.len() as int) == p
}

/// std: str::starts_with(&str)
#[verifier::external_body]
pub fn vshim_starts_with(s: &str, p: &str) -> (r: bool)
    ensures r == seq_starts_with(s@, p@)
{ s.starts_with(p) }

/// std: `a != b` / `a == b` on &str compare the character sequences
#[verifier::external_body]
pub fn vshim_str_eq(a: &str, b: &str) -> (r: bool)
    ensures r == (a@ == b@)
{ a == b }

/// std: `str::to_string` / `String::from(&str)`
#[verifier::external_body]
pub fn vshim_to_string(s: &str) -> (r: String)
    ensures r@ == s@
{ s.to_string() }

pub uninterp spec fn spec_bool_to_string(b: bool) -> Seq<char>;
pub uninterp spec fn spec_i64_to_string(i: i64) -> Seq<char>;
pub uninterp spec fn spec_f64_to_string(f: f64) -> Seq<char>;
/// std Display for bool / i64 / f64 (formatting is trusted, deterministic)
#[verifier::external_body]
pub fn vshim_bool_to_string(b: bool) -> (r: String) ensures r@ == spec_bool_to_string(b) { b.to_string() }
#[verifier::external_body]
pub fn vshim_i64_to_string(i: i64) -> (r: String) ensures r@ == spec_i64_to_string(i) { i.to_string() }
#[verifier::external_body]
pub fn vshim_f64_to_string(f: f64) -> (r: String) ensures r@ == spec_f64_to_string(f) { f.to_string() }

/// std: `Option<&str> == Some(&str)` comparison
#[verifier::external_body]
pub fn vshim_opt_str_is(a: Option<&str>, b: &str) -> (r: bool)
    ensures r == (a.is_some() && a.unwrap()@ == b@)
{ a == Some(b) }

/// std: `String::with_capacity(n)` is the empty string
#[verifier::external_body]
pub fn vshim_string_with_capacity(n: usize) -> (r: String) ensures r@ == Seq::<char>::empty() { String::with_capacity(n) }
/// std: `a += &b` / `a.push_str(&b)` on String
#[verifier::external_body]
pub fn vshim_push_str(a: &mut String, b: &str) ensures final(a)@ == old(a)@ + b@ { a.push_str(b) }
/// std: `a + &b` on String
#[verifier::external_body]
pub fn vshim_concat(a: String, b: &str) -> (r: String) ensures r@ == a@ + b@ { a + b }
/// std: String::is_empty / str::is_empty
#[verifier::external_body]
pub fn vshim_is_empty(a: &str) -> (r: bool) ensures r == (a@.len() == 0) { a.is_empty() }

/// std: `s.chars().count()`
#[verifier::external_body]
pub fn vshim_char_count(s: &str) -> (r: usize) ensures r == s@.len() { s.chars().count() }

/// std: `x.chars().count()` as a method (value unspecified)
pub trait VCharCount { fn vchars_count(&self) -> usize; }
impl VCharCount for String { #[verifier::external_body] fn vchars_count(&self) -> usize { self.chars().count() } }
impl VCharCount for str { #[verifier::external_body] fn vchars_count(&self) -> usize { self.chars().count() } }
