// Trusted prelude "str": shims for the std str/String methods Verus cannot take directly (R5).  Each shim's
// specification is the documented meaning of the std method over the string's character sequence (s@ : Seq<char>).

pub open spec fn seq_starts_with(s: Seq<char>, p: Seq<char>) -> bool {
    p.len() <= s.len() && s.subrange(0, p.len() as int) == p
}

/// std: str::starts_with(&str)
#[verifier::external_body]
pub fn vshim_starts_with(s: &str, p: &str) -> (r: bool)
    ensures r == seq_starts_with(s@, p@)
{ s.starts_with(p) }

/// std: `a != b` / `a == b` on &str compare the character sequences
#[verifier::external_body]
pub fn vshim_str_eq(a: &str, b: &str) -> (r: bool)
    ensures r == (a@ == b@)
{ a == b }
