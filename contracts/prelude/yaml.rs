// Trusted prelude "yaml": yaml_rust::Yaml (shape mirrored; Array/Hash payloads opaque) and the preference map
// `pub type PreferenceHashMap = HashMap<String, Yaml>` as a mathematical map keyed by the string's characters.

#[verifier::external_body]
pub struct YamlOpaque { _p: u8 }

/// mirrors `pub enum Yaml` of yaml-rust 0.4
pub enum Yaml {
    Real(String),
    Integer(i64),
    String(String),
    Boolean(bool),
    Array(YamlOpaque),
    Hash(YamlOpaque),
    Alias(usize),
    Null,
    BadValue,
}

impl Yaml {
    /// yaml_rust: `pub fn as_str(&self) -> Option<&str>` -- Some only for Yaml::String
    pub fn as_str(&self) -> (r: Option<&str>)
        ensures r.is_some() <==> (self is String),
                r.is_some() ==> r.unwrap()@ == self->String_0@,
    {
        match self { Yaml::String(s) => Some(s.as_str()), _ => None }
    }
}
impl Clone for Yaml {
    #[verifier::external_body]
    fn clone(&self) -> (r: Self) ensures r == *self { unimplemented!() }
}

#[verifier::external_body]
#[verifier::reject_recursive_types_in_ground_variants]
pub struct PreferenceHashMap { _p: u8 }

impl PreferenceHashMap {
    pub uninterp spec fn view(&self) -> Map<Seq<char>, Yaml>;

    /// std HashMap::get
    #[verifier::external_body]
    pub fn get(&self, k: &str) -> (r: Option<&Yaml>)
        ensures r.is_some() <==> self@.contains_key(k@),
                r.is_some() ==> *r.unwrap() == self@[k@],
    { unimplemented!() }

    /// std HashMap::insert
    #[verifier::external_body]
    pub fn insert(&mut self, k: String, v: Yaml) -> (r: Option<Yaml>)
        ensures final(self)@ == old(self)@.insert(k@, v),
    { unimplemented!() }
}
