// Trusted prelude "core": error type of error-chain, panic/assert shims, str shims.
// Everything marked external_body / uninterp here is an ASSUMPTION and is listed in the evidence.

#[verifier::external_body]
#[verifier::reject_recursive_types_in_ground_variants]
pub struct Error { _p: u8 }
impl core::fmt::Debug for Error {
    #[verifier::external_body]
    fn fmt(&self, f: &mut core::fmt::Formatter<'_>) -> core::fmt::Result { unimplemented!() }
}
pub type Result<T> = core::result::Result<T, Error>;

/// R4: `bail!(..)` -> `return Err(verr())` -- the message payload is dropped
#[verifier::external_body]
pub fn verr() -> (e: Error) { unimplemented!() }

/// R1: `assert!(e)` -> `vassert(e)`: a run-time panic site becomes a proof obligation
pub fn vassert(b: bool)
    requires b
{}

/// R2: `panic!(..)` / `unreachable!()` -> `vpanic()`: reaching it is a violation of panic-freedom
#[verifier::external_body]
pub fn vpanic() -> !
    requires false
{ panic!() }
