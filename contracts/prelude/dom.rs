// Trusted prelude "dom": a FACADE of the sxd_document API under the library's own type and function names, so that
// the text of MathCAT functions that handle the DOM can be spliced in unchanged.  All bodies are external; the
// specifications are ASSUMPTIONS about sxd_document and are listed in the evidence.
//
// Soundness rule for units that use it: the observers below are functional in the handle (spec_name(e), ...).
// The real DOM is mutable through aliases, so a unit may rely on an observer's value only for reads that are not
// preceded, inside the verified function, by a mutation that can change it.  Mutators are declared per unit, next
// to the contract that uses them, with the relevant part of the property as their *precondition*.

#[verifier::external_body]
pub struct Element<'a> { _p: core::marker::PhantomData<&'a u8> }
impl<'a> Clone for Element<'a> {
    #[verifier::external_body]
    fn clone(&self) -> (r: Self) ensures r == *self { unimplemented!() }
}
impl<'a> Copy for Element<'a> {}

#[verifier::external_body]
pub struct Text<'a> { _p: core::marker::PhantomData<&'a u8> }
impl<'a> Clone for Text<'a> {
    #[verifier::external_body]
    fn clone(&self) -> (r: Self) ensures r == *self { unimplemented!() }
}
impl<'a> Copy for Text<'a> {}

#[verifier::external_body]
pub struct Document<'a> { _p: core::marker::PhantomData<&'a u8> }
impl<'a> Clone for Document<'a> {
    #[verifier::external_body]
    fn clone(&self) -> (r: Self) ensures r == *self { unimplemented!() }
}
impl<'a> Copy for Document<'a> {}

/// mirrors sxd_document::dom::ChildOfElement (Comment / ProcessingInstruction folded into one opaque variant)
#[derive(Clone, Copy)]
pub enum ChildOfElement<'a> {
    Element(Element<'a>),
    Text(Text<'a>),
    Other(u8),
}

pub uninterp spec fn spec_name(e: Element) -> Seq<char>;
pub uninterp spec fn spec_children(e: Element) -> Seq<ChildOfElement>;
pub uninterp spec fn spec_text(e: Element) -> Seq<char>;            // as_text(e) for a leaf
pub uninterp spec fn spec_is_leaf(e: Element) -> bool;              // xpath_functions::is_leaf
pub uninterp spec fn spec_attr(e: Element, name: Seq<char>) -> Option<Seq<char>>;
pub uninterp spec fn spec_parent(e: Element) -> Element;

impl<'a> Element<'a> {
    #[verifier::external_body]
    pub fn children(&self) -> (r: Vec<ChildOfElement<'a>>)
        ensures r@ == spec_children(*self)
    { unimplemented!() }

    #[verifier::external_body]
    pub fn document(&self) -> (r: Document<'a>) { unimplemented!() }
}

impl<'a> ChildOfElement<'a> {
    pub fn element(&self) -> (r: Option<Element<'a>>)
        ensures r == (match *self { ChildOfElement::Element(e) => Some(e), _ => None::<Element<'a>> })
    {
        match *self { ChildOfElement::Element(e) => Some(e), _ => None }
    }
}

/// canonicalize.rs: `pub fn name<'a>(node: &'a Element<'a>) -> &'a str { node.name().local_part() }`
#[verifier::external_body]
pub fn name<'a>(node: &'a Element<'a>) -> (r: &'a str)
    ensures r@ == spec_name(*node)
{ unimplemented!() }

/// xpath_functions.rs: `pub fn is_leaf(element: Element) -> bool { MATHML_LEAF_NODES.contains(name(&element)) }`
#[verifier::external_body]
pub fn is_leaf(element: Element) -> (r: bool)
    ensures r == spec_is_leaf(element)
{ unimplemented!() }

impl<'a> Element<'a> {
    /// sxd_document: `attribute_value(&self, name) -> Option<&'a str>`
    #[verifier::external_body]
    pub fn attribute_value(&self, name: &str) -> (r: Option<&'a str>)
        ensures r.is_some() <==> spec_attr(*self, name@).is_some(),
                r.is_some() ==> r.unwrap()@ == spec_attr(*self, name@).unwrap(),
    { unimplemented!() }
}

/// canonicalize.rs `as_element`: panics (by design) on a non-element child -> precondition
pub fn as_element<'a>(child: ChildOfElement<'a>) -> (r: Element<'a>)
    requires child is Element
    ensures r == child->Element_0
{
    match child { ChildOfElement::Element(e) => e, _ => vpanic() }
}
