// Trusted prelude "bytes": byte-level view of &str for slicing safety (std str semantics).
// bytes_of(s) is the UTF-8 encoding; is_boundary(s, i) is str::is_char_boundary.  Every slicing shim REQUIRES its indices
// to be in range and on character boundaries -- exactly the conditions under which the real `&s[a..b]` does not panic.

pub uninterp spec fn bytes_of(s: &str) -> Seq<u8>;
pub uninterp spec fn is_boundary(s: &str, i: int) -> bool;

/// std: 0 and len are boundaries; a boundary lies at i iff i == len or byte i is not a continuation byte (0x80..0xBF)
pub proof fn axiom_boundaries(s: &str)
    ensures is_boundary(s, 0), is_boundary(s, bytes_of(s).len() as int),
{ admit(); }
pub proof fn axiom_boundary_after_ascii(s: &str)
    ensures bytes_of(s).len() >= 1 && bytes_of(s)[0] < 0x80 ==> is_boundary(s, 1)
{ admit(); }

#[verifier::external_body]
pub fn vb_len(s: &str) -> (r: usize) ensures r == bytes_of(s).len() { s.len() }
#[verifier::external_body]
pub fn vb_is_empty(s: &str) -> (r: bool) ensures r == (bytes_of(s).len() == 0) { s.is_empty() }
/// `s.as_bytes()[i]` -- panics when out of range
#[verifier::external_body]
pub fn vb_byte_at(s: &str, i: usize) -> (r: u8) requires i < bytes_of(s).len() ensures r == bytes_of(s)[i as int] { s.as_bytes()[i] }
/// `&s[..n]`
#[verifier::external_body]
pub fn vb_slice_to<'a>(s: &'a str, n: usize) -> (r: &'a str)
    requires n <= bytes_of(s).len(), is_boundary(s, n as int)
    ensures bytes_of(r) == bytes_of(s).subrange(0, n as int)
{ &s[..n] }
/// `&s[n..]`
#[verifier::external_body]
pub fn vb_slice_from<'a>(s: &'a str, n: usize) -> (r: &'a str)
    requires n <= bytes_of(s).len(), is_boundary(s, n as int)
    ensures bytes_of(r) == bytes_of(s).subrange(n as int, bytes_of(s).len() as int)
{ &s[n..] }
/// `s.trim_start()` / `s.trim()`: some sub-slice (never longer)
#[verifier::external_body]
pub fn vb_trim_start<'a>(s: &'a str) -> (r: &'a str) ensures bytes_of(r).len() <= bytes_of(s).len() { s.trim_start() }
#[verifier::external_body]
pub fn vb_trim<'a>(s: &'a str) -> (r: &'a str) ensures bytes_of(r).len() <= bytes_of(s).len() { s.trim() }

/// a sub-slice obtained by trimming at the front is a SUFFIX of the original (std str::trim_start)
#[verifier::external_body]
pub fn vb_trim_start_suffix<'a>(s: &'a str) -> (r: &'a str)
    ensures exists|k: int| 0 <= k <= bytes_of(s).len() && #[trigger] bytes_of(s).subrange(k, bytes_of(s).len() as int) == bytes_of(r)
{ s.trim_start() }
/// `s.find(pat)` for a non-empty pattern: byte index of the FIRST occurrence (on a character boundary, as is its end)
pub open spec fn occurs_at(s: &str, pat: &str, i: int) -> bool {
    0 <= i && i + bytes_of(pat).len() <= bytes_of(s).len() && bytes_of(s).subrange(i, i + bytes_of(pat).len()) == bytes_of(pat)
}
#[verifier::external_body]
pub fn vb_find(s: &str, pat: &str) -> (r: Option<usize>)
    requires bytes_of(pat).len() > 0
    ensures r.is_some() ==> occurs_at(s, pat, r.unwrap() as int) && is_boundary(s, r.unwrap() as int) && is_boundary(s, r.unwrap() + bytes_of(pat).len())
                            && forall|j: int| 0 <= j < r.unwrap() ==> !occurs_at(s, pat, j),
            r.is_none() ==> forall|j: int| !occurs_at(s, pat, j),
{ s.find(pat) }
/// `&s[a..]` followed by `&t[..b]` keep boundaries: a boundary of a sub-slice is a boundary of the original (std)
pub proof fn axiom_boundary_of_suffix(s: &str, t: &str, a: int, i: int)
    ensures 0 <= a <= bytes_of(s).len() && is_boundary(s, a) && bytes_of(t) == bytes_of(s).subrange(a, bytes_of(s).len() as int)
            ==> (is_boundary(t, i) <==> is_boundary(s, a + i))
{ admit(); }
/// `a.to_string() + b`
pub uninterp spec fn bytes_of_string(s: String) -> Seq<u8>;
#[verifier::external_body]
pub fn vb_concat(a: &str, b: &str) -> (r: String) ensures bytes_of_string(r) == bytes_of(a) + bytes_of(b) { a.to_string() + b }
/// `prev.trim_end().as_bytes()` ends with the bytes of `w` and is strictly longer
#[verifier::external_body]
pub fn vb_trimmed_ends_with_longer(prev: &str, w: &str) -> (r: bool) { let p = prev.trim_end().as_bytes(); p.len() > w.len() && &p[p.len()-w.len()..] == w.as_bytes() }
