// Trusted prelude "bytes": byte-level view of &str for slicing safety (std str semantics).
// bytes_of(s) is the UTF-8 encoding; is_boundary(s, i) is str::is_char_boundary.  Every slicing shim REQUIRES its indices
// to be in range and on character boundaries -- exactly the conditions under which the real `&s[a..b]` does not panic.

pub uninterp spec fn bytes_of(s: &str) -> Seq<u8>;
pub uninterp spec fn is_boundary(s: &str, i: int) -> bool;

/// std: 0 and len are boundaries; a boundary lies at i iff i == len or byte i is not a continuation byte (0x80..0xBF)
pub proof fn axiom_boundaries(s: &str)
    ensures is_boundary(s, 0), is_boundary(s, bytes_of(s).len() as int),
{ admit(); }
pub proof fn axiom_boundary_after_ascii(s: &str)
    ensures bytes_of(s).len() >= 1 && bytes_of(s)[0] < 0x80 ==> is_boundary(s, 1)
{ admit(); }

#[verifier::external_body]
pub fn vb_len(s: &str) -> (r: usize) ensures r == bytes_of(s).len() { s.len() }
#[verifier::external_body]
pub fn vb_is_empty(s: &str) -> (r: bool) ensures r == (bytes_of(s).len() == 0) { s.is_empty() }
/// `s.as_bytes()[i]` -- panics when out of range
#[verifier::external_body]
pub fn vb_byte_at(s: &str, i: usize) -> (r: u8) requires i < bytes_of(s).len() ensures r == bytes_of(s)[i as int] { s.as_bytes()[i] }
/// `&s[..n]`
#[verifier::external_body]
pub fn vb_slice_to<'a>(s: &'a str, n: usize) -> (r: &'a str)
    requires n <= bytes_of(s).len(), is_boundary(s, n as int)
    ensures bytes_of(r) == bytes_of(s).subrange(0, n as int)
{ &s[..n] }
/// `&s[n..]`
#[verifier::external_body]
pub fn vb_slice_from<'a>(s: &'a str, n: usize) -> (r: &'a str)
    requires n <= bytes_of(s).len(), is_boundary(s, n as int)
    ensures bytes_of(r) == bytes_of(s).subrange(n as int, bytes_of(s).len() as int)
{ &s[n..] }
/// `s.trim_start()` / `s.trim()`: some sub-slice (never longer)
#[verifier::external_body]
pub fn vb_trim_start<'a>(s: &'a str) -> (r: &'a str) ensures bytes_of(r).len() <= bytes_of(s).len() { s.trim_start() }
#[verifier::external_body]
pub fn vb_trim<'a>(s: &'a str) -> (r: &'a str) ensures bytes_of(r).len() <= bytes_of(s).len() { s.trim() }
