// Shared specification vocabulary for the script elements (msub, msup, msubsup, mmultiscripts): used by the unit that PROVES clean_mmultiscripts / clean_msubsup (U01c)
// and by the unit that ASSUMES their contracts (U01k), so that the assumed copies can be checked against the proved functions (`@@ refines`). Definitions only -- nothing is assumed here.
pub open spec fn all_elements(s: Seq<ChildOfElement>) -> bool { forall|i: int| 0 <= i < s.len() ==> #[trigger] s[i] is Element }
pub open spec fn nm(c: ChildOfElement) -> Seq<char> { spec_name(c->Element_0) }
/// arity of mmultiscripts as validated by assure_mathml (since the fixes of D2 and D15): base, pairs, at most one
/// mprescripts at an odd index followed by pairs
pub open spec fn valid_multiscripts(s: Seq<ChildOfElement>, p: int) -> bool {
    s.len() >= 1 && all_elements(s) && 0 <= p <= s.len()
    && (forall|j: int| 0 <= j < s.len() && j != p ==> nm(#[trigger] s[j]) != "mprescripts"@)
    && (p < s.len() ==> nm(s[p]) == "mprescripts"@ && p % 2 == 1 && s.len() % 2 == 0)
    && (p == s.len() ==> s.len() % 2 == 1)
}
