"""U18a generator: the specification tables of C18, derived at run time from the Unicode Character Database
(python's unicodedata) -- independent of the offsets + exception list the code uses.

Kani cannot execute shift_text on a symbolic string (measured: > 15 min for one symbolic character, even when
restricted to 26 values), so the mechanism is decided on its two scalar kernels, for their whole domains:
  lookup_<all chars>   : SHIFT_AMOUNTS.get(&c) for EVERY char c (real phf lookup)  == UCD-derived (table, index) or None
  shift_<variant>      : for the real MATH_VARIANTS[variant] and EVERY (table, index): the block start is 0 exactly when
                         the specification leaves that alphabet unchanged, and otherwise shift_char(start + index) is the
                         character the UCD assigns (holes included), a valid scalar value
The 12 lines of glue between them (the `for ch in chars()` loop of shift_text) are covered by the Verus unit U18b.
"""
import unicodedata as ud, re, os, sys
sys.path.insert(0, os.path.join(os.path.dirname(os.path.abspath(__file__)), '..', 'lib'))
from rsx import RustSource, CutError

STYLE = {
    'italic': 'ITALIC', 'bold': 'BOLD', 'bold-italic': 'BOLD ITALIC', 'double-struck': 'DOUBLE-STRUCK',
    'bold-fraktur': 'BOLD FRAKTUR', 'script': 'SCRIPT', 'bold-script': 'BOLD SCRIPT', 'fraktur': 'FRAKTUR',
    'sans-serif': 'SANS-SERIF', 'bold-sans-serif': 'SANS-SERIF BOLD', 'sans-serif-italic': 'SANS-SERIF ITALIC',
    'sans-serif-bold-italic': 'SANS-SERIF BOLD ITALIC', 'monospace': 'MONOSPACE',
}
LETTERLIKE = {'SCRIPT': 'SCRIPT', 'FRAKTUR': 'BLACK-LETTER', 'DOUBLE-STRUCK': 'DOUBLE-STRUCK'}
BOLD_START = [0x1D400, 0x1D7CE, 0x1D6A8]      # first code points of MATHEMATICAL BOLD CAPITAL A / DIGIT ZERO / CAPITAL ALPHA


def lookup(name):
    try:
        return ud.lookup(name)
    except KeyError:
        return None


def greek_math_name(ch):
    try:
        n = ud.name(ch)
    except ValueError:
        return None
    if n in ('NABLA', 'PARTIAL DIFFERENTIAL'):
        return n
    if not n.startswith('GREEK '):
        return None
    n = n[len('GREEK '):]
    n = n.replace('LETTER ', '').replace('LUNATE EPSILON SYMBOL', 'EPSILON SYMBOL')
    if n == 'DIGAMMA':
        n = 'CAPITAL DIGAMMA'
    return n


def greek_sources():
    src = []
    for cp in list(range(0x370, 0x400)) + [0x2207, 0x2202]:
        ch = chr(cp)
        g = greek_math_name(ch)
        if g and lookup('MATHEMATICAL BOLD ' + g):
            src.append(ch)
    return src


def spec_char(variant, ch):
    st = STYLE[variant]
    if 'A' <= ch <= 'Z' or 'a' <= ch <= 'z':
        if variant == 'italic':
            return ch                       # "plain italic Latin letters (the default math style) are left as they are"
        kind = 'CAPITAL' if ch.isupper() else 'SMALL'
        r = lookup('MATHEMATICAL %s %s %s' % (st, kind, ch.upper()))
        if r:
            return r
        if st in LETTERLIKE:                # the letters that live outside the contiguous blocks
            r = lookup('%s %s %s' % (LETTERLIKE[st], kind, ch.upper()))
            if r:
                return r
        raise Exception('UCD has no %s %s' % (st, ch))
    if '0' <= ch <= '9':
        dn = 'DIGIT ' + ud.name(ch).split()[-1]
        r = lookup('MATHEMATICAL %s %s' % (st, dn))
        if r:
            return r
        if 'ITALIC' in st:                  # "upright digits for the italic styles"
            up = st.replace(' ITALIC', '').replace('ITALIC', '').strip()
            if up:
                r = lookup('MATHEMATICAL %s %s' % (up, dn))
                if r:
                    return r
        return ch
    g = greek_math_name(ch)
    if g:
        r = lookup('MATHEMATICAL %s %s' % (st, g))
        if r:
            return r
        if st in ('BOLD SCRIPT', 'BOLD FRAKTUR'):   # "bold for bold-script and bold-fraktur Greek"
            r = lookup('MATHEMATICAL BOLD %s' % g)
            if r:
                return r
    return ch


def domain():
    return [chr(c) for c in range(ord('A'), ord('Z') + 1)] + [chr(c) for c in range(ord('a'), ord('z') + 1)] + [chr(c) for c in range(ord('0'), ord('9') + 1)] + greek_sources()


def table_of(ch):
    return 0 if ch.isascii() and ch.isalpha() else (1 if ch.isdigit() else 2)


def index_of(ch):
    """position of the character in its Unicode mathematical block = offset of its BOLD counterpart from the block start"""
    t = table_of(ch)
    return t, ord(spec_char('bold', ch)) - BOLD_START[t]


def spec_table(variant):
    tab = {c: spec_char(variant, c) for c in domain()}
    img = {}
    for k, v in tab.items():        # the property's one-to-one clause, checked on the specification itself
        if v in img:
            raise Exception('specification table for %s is not injective: %r and %r -> %r' % (variant, img[v], k, v))
        img[v] = k
    for v in tab.values():
        ud.name(v)                  # raises for an unassigned code point
    return tab


DIGAMMA = ['Ϝ', 'ϝ']      # only exist in BOLD; the code handles them outside SHIFT_AMOUNTS


def generate(repo):
    src = RustSource(os.path.join(repo, 'src', 'canonicalize.rs'))
    mv = src.find('fn canonicalize_plane1 :: static MATH_VARIANTS')
    variants = re.findall(r'"([a-z\-]+)"\s*=>', mv.text)
    unknown = [v for v in variants if v not in STYLE]
    missing = [v for v in STYLE if v not in variants]
    if unknown or missing:
        raise CutError('MATH_VARIANTS and the specification disagree on the variant names: extra %s missing %s' % (unknown, missing))
    dom = [c for c in domain() if c not in DIGAMMA]
    helpers = []
    # ---- (1) lookup for every char
    arms = '\n'.join("        '\\u{%X}' => Some((%d, %d)),   // %s" % (ord(c), index_of(c)[0], index_of(c)[1], ud.name(c)) for c in dom)
    helpers.append('''
#[cfg(any(kani, mathcat_verif_replay))]
#[allow(dead_code)]
fn verif_spec_index(c: char) -> Option<(usize, u32)> {
    match c {
%s
        _ => None,
    }
}''' % arms)
    harnesses = [{
        'name': 'lookup_all_chars', 'nested': 'canonicalize.rs :: fn canonicalize_plane1 :: fn shift_text', 'inputs': [('c', 'char')], 'tier': 'quick', 'timeout': 600,
        'covers': ['canonicalize.rs :: fn canonicalize_plane1 :: fn shift_text :: static SHIFT_AMOUNTS'],
        'requires': 'c is ANY char (all 1 112 064 scalar values)',
        'ensures': 'SHIFT_AMOUNTS.get(&c) (the real phf lookup) is Some((table, index)) exactly for the %d Latin letters, digits, Greek letters and variant symbols that have a Unicode mathematical counterpart (derived from UCD names), with index == offset of the counterpart in its block; None for every other char' % len(dom),
        'body': '''
    match (SHIFT_AMOUNTS.get(&c), verif_spec_index(c)) {
        (None, None) => (),
        (Some(off), Some((t, i))) => { assert!(off.table == t, "alphabet (Latin/digit/Greek) of the character"); assert!(off.ch == i, "position of the character in its Unicode mathematical block"); },
        (Some(_), None) => assert!(false, "a character that has no mathematical counterpart is in the shift table"),
        (None, Some(_)) => assert!(false, "a letter, digit or Greek symbol with a mathematical counterpart is missing from the shift table"),
    }
''',
        'api': "set_mathml\\t<math><mi mathvariant='bold'>{c}</mi></math>\\nset_mathml\\t<math><mi mathvariant='sans-serif-bold-italic'>{c}</mi></math>\\n",
    }]
    # ---- (2) per variant: block starts and shift_char for every (table, index)
    by_index = {}
    for c in dom:
        by_index[index_of(c)] = c
    for v in STYLE:
        tab = spec_table(v)
        ident = v.replace('-', '_')
        unchanged = [all(tab[c] == c for c in dom if table_of(c) == t) for t in range(3)]
        arms = '\n'.join("        (%d, %d) => Some(0x%X),   // %s -> %s" % (t, i, ord(tab[c]), ud.name(c), ud.name(tab[c])) for (t, i), c in sorted(by_index.items()))
        helpers.append('''
#[cfg(any(kani, mathcat_verif_replay))]
#[allow(dead_code)]
fn verif_spec_%s(t: usize, i: u32) -> Option<u32> {
    match (t, i) {
%s
        _ => None,
    }
}''' % (ident, arms))
        digamma_bold = (tab['Ϝ'] != 'Ϝ')
        harnesses.append({
            'name': 'shift_' + ident, 'nested': 'canonicalize.rs :: fn canonicalize_plane1 :: fn shift_text', 'inputs': [('t', 'u8'), ('i', 'u8')], 'tier': 'quick', 'timeout': 600,
            'covers': ['canonicalize.rs :: fn canonicalize_plane1 :: fn shift_text :: fn shift_char', 'canonicalize.rs :: fn canonicalize_plane1 :: static MATH_VARIANTS'],
            'requires': 't in 0..3 (Latin, digits, Greek), i any index that the UCD-derived table defines for that alphabet',
            'ensures': 'MATH_VARIANTS["%s"][t] == 0 exactly when the specification leaves that alphabet unchanged for this style (%s); otherwise shift_char(start + i) is a valid scalar value and is the character the UCD assigns to that letter in this style (holes -> letterlike symbols, documented fallbacks); the digamma special case is taken exactly when the style uses the bold Greek block' % (v, unchanged),
            'body': '''
    let t = t as usize; let i = i as u32;
    let expected = match verif_spec_%(ident)s(t, i) { Some(e) => e, None => return };
    let mapping: &[u32; 3] = match MATH_VARIANTS.get("%(v)s") { Some(m) => m, None => { assert!(false, "variant %(v)s is not in MATH_VARIANTS"); return; } };
    let unchanged: [bool; 3] = [%(unch)s];
    assert!((mapping[t] == 0) == unchanged[t], "an alphabet is left unchanged exactly where Unicode (with the documented fallbacks) has no such style");
    if mapping[t] != 0 {
        let out = shift_char(mapping[t] + i);
        assert!(out as u32 == expected, "mathvariant=%(v)s: the character Unicode assigns to this letter in this style (UCD-derived)");
        assert!(char::from_u32(out as u32).is_some(), "valid scalar value");
    }
    // the digamma pair lives outside the table: shift_text maps it iff char_mapping[2] == 0x1D6A8
    assert!((mapping[2] == 0x1D6A8) == %(dig)s, "digamma is mapped exactly in the styles whose Greek is the bold block");
''' % {'ident': ident, 'v': v, 'unch': ', '.join('true' if u else 'false' for u in unchanged), 'dig': 'true' if digamma_bold else 'false'},
            'api': "set_mathml\\t<math><mi mathvariant='%s'>{ch}</mi></math>\\n" % v,
            'api_map': {'%d,%d' % k: c for k, c in by_index.items()},
        })
    nested = [('canonicalize.rs :: fn canonicalize_plane1 :: fn shift_text', '\n'.join(helpers))]
    canaries = [
        {'name': 'theta_symbol_offset', 'file': 'canonicalize.rs', 'subst': "/'ϑ' => Offsets\\{ ch: 53, table: 2\\}/ => 'ϑ' => Offsets{ ch: 33, table: 2}", 'expect': 'lookup_all_chars'},
        {'name': 'missing_hole_script_B', 'file': 'canonicalize.rs', 'subst': "/0x1D49Du32 => 0x212Cu32,/ => ", 'expect': 'shift_script'},
        {'name': 'extra_exception_script_l', 'file': 'canonicalize.rs', 'subst': "/0x1D4C4u32 => 0x2134u32,/ => 0x1D4C4u32 => 0x2134u32, 0x1D4C1u32 => 0x2113u32,", 'expect': 'shift_script'},
        {'name': 'wrong_block_start', 'file': 'canonicalize.rs', 'subst': '/"monospace" => \\[0x1D670, 0x1D7F6, 0\\]/ => "monospace" => [0x1D670, 0x1D7F5, 0]', 'expect': 'shift_monospace'},
    ]
    return {'nested': nested, 'harnesses': harnesses, 'canaries': canaries,
            'assumptions': ['[U18a] oracle: Unicode Character Database as shipped with python3 unicodedata %s (names MATHEMATICAL <STYLE> ..., letterlike symbols for the holes)' % ud.unidata_version,
                            '[U18a] shift_text on a symbolic string is out of Kani\'s reach (measured > 15 min for one character): the two scalar kernels are proved for their whole domains here and the glue loop of shift_text is proved by Verus unit U18b; the composition (out[i] == shift_char(start[table(c)] + index(c))) is the postcondition of U18b',
                            '[U18a] unknown mathvariant names are handled by the two-line `None => mi_text.to_string()` arm of canonicalize_plane1 (DOM code, not covered)']}


if __name__ == '__main__':
    for v in STYLE:
        t = spec_table(v)
        print(v, len(t), ''.join(t[c] for c in 'ABChl0θϑ'))
    print(sorted(set(index_of(c) for c in domain() if table_of(c) == 2))[-3:])
