"""U13a generator (stand-alone Kani on mechanically extracted text): the start/end tag tables of the three speech
engines.  Everything between the BEGIN/END EXTRACTED markers is the current text of /repo/src/tts.rs (and one constant of
speech.rs), cut by lib/rsx.py.  What the extraction drops is stated in `dropped`."""
import os, re, sys
sys.path.insert(0, os.path.join(os.path.dirname(os.path.abspath(__file__)), '..', 'lib'))
from rsx import RustSource, CutError
import vunit

CHECKER = r'''
/// start/end agreement of one command for one engine: the start string is empty, or it opens exactly one element
/// `<name ...>` (possibly followed by character data) that the end string closes with `</name>`, or it is self-closing
/// and the end string is empty; attributes are name=("..."|'...') -- a doubled '=' or a missing quote is rejected
fn verif_tag_ok(start: &str, end: &str) -> bool {
    let s = start.as_bytes();
    let e = end.as_bytes();
    if s.is_empty() { return e.is_empty(); }
    if s[0] != b'<' { return false; }
    let mut i = 1;
    while i < s.len() && (s[i].is_ascii_alphanumeric() || s[i] == b'-') { i += 1; }
    if i == 1 { return false; }
    let name_end = i;
    loop {
        if i >= s.len() { return false; }
        if s[i] == b'>' { break; }
        if s[i] == b'/' { if i + 1 < s.len() && s[i+1] == b'>' { return i + 2 == s.len() && e.is_empty(); } else { return false; } }
        if s[i] != b' ' { return false; }
        while i < s.len() && s[i] == b' ' { i += 1; }
        if i < s.len() && (s[i] == b'>' || s[i] == b'/') { continue; }
        let a0 = i;
        while i < s.len() && (s[i].is_ascii_alphanumeric() || s[i] == b'-' || s[i] == b':') { i += 1; }
        if i == a0 || i + 1 >= s.len() || s[i] != b'=' { return false; }
        let q = s[i+1];
        if q != b'"' && q != b'\'' { return false; }
        i += 2;
        while i < s.len() && s[i] != q { if s[i] == b'<' { return false; } i += 1; }
        if i >= s.len() { return false; }
        i += 1;
    }
    let mut k = i + 1;
    while k < s.len() { if s[k] == b'<' || s[k] == b'>' { return false; } k += 1; }
    if e.len() != name_end + 2 || e[0] != b'<' || e[1] != b'/' || e[e.len()-1] != b'>' { return false; }
    let mut j = 1;
    while j < name_end { if e[j+1] != s[j] { return false; } j += 1; }
    return true;
}
/// no markup at all (engine None): neither '<' nor '>' nor '&'
fn verif_no_markup(s: &str) -> bool {
    let b = s.as_bytes();
    let mut i = 0;
    while i < b.len() { if b[i] == b'<' || b[i] == b'>' { return false; } i += 1; }
    return true;
}
'''

ENV = r'''
#![allow(dead_code, unused_variables, unused_macros, unused_imports, unreachable_code)]
// ---- environment (NOT extracted): stubs for what the extracted text refers to ------------------------------------
/// `format!` is shadowed: the literal is kept with its {} placeholders in place, the arguments are evaluated and dropped
/// (float formatting is intractable for CBMC: measured > 5 min for one `format!("{}", 30.0)`)
macro_rules! format { ($lit:literal $(, $a:expr)* $(,)?) => {{ $( let _ = &$a; )* String::from($lit) }} }
#[derive(Clone, PartialEq, Debug)]
pub struct MyXPath;
#[derive(Clone, PartialEq, Debug)]
pub struct ReplacementArray;
pub struct PreferenceManager { rate: f64, pause_factor: f64 }
impl PreferenceManager { pub fn get_rate(&self) -> f64 { self.rate } }
mod speech { %(concat)s }
use std::fmt;
'''


def generate(repo, mutation=None):
    tts = RustSource(os.path.join(repo, 'src', 'tts.rs'))
    sp = RustSource(os.path.join(repo, 'src', 'speech.rs'))
    paths = ['const MIN_PAUSE', 'const PAUSE_AUTO', 'const PAUSE_AUTO_STR', 'enum TTSCommand', 'struct Pronounce', 'enum TTSCommandValue', 'impl TTSCommandValue',
             'struct TTSCommandRule', 'enum TTS']
    parts, covers = [], []
    for p in paths:
        s = tts.find(p)
        t = vunit.strip_attrs_and_docs(s.text)
        if not p.startswith('const') and not p.startswith('impl'):
            t = '#[derive(Clone, PartialEq, Debug)]\n' + t
        parts.append('// -- tts.rs :: %s (line %d sha %s)\n%s' % (p, s.line(), s.sha(), t))
    fns = []
    for f in ['get_string_none', 'get_string_sapi5', 'get_string_ssml']:
        s = tts.find('impl TTS :: fn ' + f)
        text = s.text
        if mutation and mutation.get('fn') == f:
            new = re.sub(mutation['regex'], mutation['repl'], text, count=1)
            if new == text:
                raise CutError('canary %s: pattern not found' % mutation['name'])
            text = new
        fns.append('// -- tts.rs :: impl TTS :: fn %s (line %d sha %s)\n%s' % (f, s.line(), s.sha(), text))
        covers.append({'name': f, 'file': 'src/tts.rs', 'path': 'impl TTS :: fn ' + f, 'line': s.line(), 'sha': s.sha()})
    concat = sp.find('const CONCAT_INDICATOR').text
    rs = ENV % {'concat': concat} + '\n// ======== BEGIN EXTRACTED ========\n' + '\n'.join(parts) + '\nimpl TTS {\n' + '\n'.join(fns) + \
        '\n    // stub (NOT extracted): the real one parses the PauseFactor preference\n    fn get_pause_multiplier(prefs: &PreferenceManager) -> f64 { prefs.pause_factor }\n}\n// ======== END EXTRACTED ========\n' + CHECKER + r'''
fn verif_rule(cmd: u8, amount: f64) -> Option<TTSCommandRule> {
    let text = |s: &str| TTSCommandValue::String(s.to_string());
    let (command, value) = match cmd {
        0 => (TTSCommand::Pause, TTSCommandValue::Number(amount)),
        1 => (TTSCommand::Rate, TTSCommandValue::Number(amount)),
        2 => (TTSCommand::Volume, TTSCommandValue::Number(amount)),
        3 => (TTSCommand::Pitch, TTSCommandValue::Number(amount)),
        4 => (TTSCommand::Audio, text("beep.mp4")),
        5 => (TTSCommand::Gender, text("female")),
        6 => (TTSCommand::Voice, text("Zira")),
        7 => (TTSCommand::Spell, text("x")),
        8 => (TTSCommand::Pronounce, TTSCommandValue::Pronounce(Box::new(Pronounce{ text: "x".to_string(), ipa: "eks".to_string(), sapi5: "eh k s".to_string(), eloquence: "eks".to_string() }))),
        _ => return None,       // Bookmark: handled by replace_string before these tables are consulted (they panic by contract)
    };
    Some(TTSCommandRule{ command, value, replacements: ReplacementArray })
}
fn verif_prefs(rate: f64, pause_factor: f64) -> Option<PreferenceManager> {
    if !(rate.is_finite() && pause_factor.is_finite() && rate > 0.0) { return None; }
    Some(PreferenceManager{ rate, pause_factor })
}
%(proofs)s
fn check(engine: u8, cmd: u8, amount: f64, rate: f64, pause_factor: f64) {
    let rule = match verif_rule(cmd, amount) { Some(r) => r, None => return };
    let prefs = match verif_prefs(rate, pause_factor) { Some(p) => p, None => return };
    if !amount.is_finite() { return; }
    match engine {
        1 => { let s = TTS::SSML.get_string_ssml(&rule, &prefs, true); let e = TTS::SSML.get_string_ssml(&rule, &prefs, false);
               assert!(s == PAUSE_AUTO_STR || verif_tag_ok(&s, &e), "SSML: the end string closes the element the start string opens; attribute syntax"); },
        2 => { let s = TTS::SAPI5.get_string_sapi5(&rule, &prefs, true); let e = TTS::SAPI5.get_string_sapi5(&rule, &prefs, false);
               assert!(s == PAUSE_AUTO_STR || verif_tag_ok(&s, &e), "SAPI5: the end string closes the element the start string opens; attribute syntax"); },
        _ => { let s = TTS::None.get_string_none(&rule, &prefs, true); let e = TTS::None.get_string_none(&rule, &prefs, false);
               assert!(verif_no_markup(&s) && e.is_empty(), "no engine selected: no markup"); },
    }
}
fn main() {}
'''
    CMDS = ['Pause', 'Rate', 'Volume', 'Pitch', 'Audio', 'Gender', 'Voice', 'Spell', 'Pronounce']
    proofs = []
    for ei, eng in ((1, 'ssml'), (2, 'sapi5')):
        for ci, cn in enumerate(CMDS):
            if ci == 0:
                for nm, amt in (('auto', '987654321.5'), ('long', '300.0'), ('tiny', '10.0')):
                    proofs.append('#[kani::proof]\nfn verif_u13a_%s_pause_%s(){ check(%d, 0, %s, 180.0, 1.0) }' % (eng, nm, ei, amt))
            else:
                proofs.append('#[kani::proof]\nfn verif_u13a_%s_%s(){ check(%d, %d, 30.0, 180.0, 100.0) }' % (eng, cn.lower(), ei, ci))
    rs = rs.replace('%(proofs)s', '\n'.join(proofs))
    hs = []
    for eng in ('ssml', 'sapi5'):
      for ci, cn, suffix in [(0, 'Pause', '_auto'), (0, 'Pause', '_long'), (0, 'Pause', '_tiny')] + [(i, c, '') for i, c in enumerate(CMDS) if i > 0]:
        hs.append({'name': 'verif_u13a_%s_%s%s' % (eng, cn.lower(), suffix), 'bounded': ('one concrete representative per branch of the Pause arm (symbolic f64 gives no verdict in 10 min)' if ci == 0 else None), 'inputs': [], 'timeout': 240,
                   'covers': [c for c in covers if eng in c['name']],
                   'requires': 'command = %s; for Pause: amount any finite f64 (rate 180, pause factor 1); is_start_tag both true and false' % cn,
                   'ensures': ('the start string is the auto-pause placeholder, or is empty with an empty end string, or opens exactly one element <name attr="v"...> (self-closing with empty end string, or closed by exactly </name>)' if eng != 'none' else 'neither string contains < or >; the end string is empty'),
                   })
    return {'rs': rs, 'harnesses': hs,
            'assumptions': ['[U13a] format! arguments are dropped (placeholders {} stay in the literal): the values never contain markup is NOT checked (numbers, voice names, ids)',
                            '[U13a] stubs: PreferenceManager::get_rate and TTS::get_pause_multiplier return arbitrary finite numbers; MyXPath, ReplacementArray are unit structs',
                            '[U13a] Bookmark is excluded: replace_string handles it before the tables are consulted (the tables panic by contract)'],
            'dropped': ['derive attributes and doc comments of the extracted items', 'format! arguments (macro shadowed, literal kept)', 'the body of get_pause_multiplier (stub)']}


CANARIES = [
    {'name': 'sapi5_pitch_closed_by_prosody', 'fn': 'get_string_sapi5', 'regex': r'String::from\("</pitch>"\)', 'repl': 'String::from("</prosody>")', 'expect': 'verif_u13a_sapi5_pitch', 'what': '</pitch> -> </prosody>'},
    {'name': 'sapi5_double_equals', 'fn': 'get_string_sapi5', 'regex': r"<silence msec='", 'repl': "<silence msec=='", 'expect': 'verif_u13a_sapi5_pause_long', 'what': "msec=' -> msec=='"},
    {'name': 'ssml_say_as_closed_by_prosody', 'fn': 'get_string_ssml', 'regex': r'String::from\("</say-as>"\)', 'repl': 'String::from("</prosody>")', 'expect': 'verif_u13a_ssml_spell', 'what': '</say-as> -> </prosody>'},
]
