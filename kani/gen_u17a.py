"""U17a generator (stand-alone Kani on extracted data): the entity table src/entities.in against the entity pattern of
interface.rs.  Both are cut from the current source; the pattern must have the shape  &(CLASS CLASS*?);  (anything else is
reported as unsupported, i.e. undecided)."""
import os, re, sys
import html.entities as _he
sys.path.insert(0, os.path.join(os.path.dirname(os.path.abspath(__file__)), '..', 'lib'))
from rsx import RustSource, CutError

KMAX, VMAX = 40, 12


def parse_class(body):
    """[a-zA-Z0-9] style class without escapes/negation -> list of (lo, hi)"""
    if body.startswith('^') or '\\' in body or '[' in body:
        raise CutError('entity pattern: unsupported character class [%s]' % body)
    L, out, i = list(body), [], 0
    while i < len(L):
        if i + 2 < len(L) and L[i + 1] == '-':
            out.append((ord(L[i]), ord(L[i + 2]))); i += 3
        else:
            out.append((ord(L[i]), ord(L[i]))); i += 1
    return out


def rust_str_unescape(s):
    def rep(m):
        return chr(int(m.group(1), 16))
    s = re.sub(r'\\u\{([0-9a-fA-F]+)\}', rep, s)
    return s.replace('\\\\', '\\').replace('\\"', '"').replace("\\'", "'").replace('\\n', '\n').replace('\\t', '\t')


def generate(repo, mutation=None):
    isrc = RustSource(os.path.join(repo, 'src', 'interface.rs'))
    m = re.search(r'static ref HTML_ENTITIES: Regex = Regex::new\(r#"([^"]*)"#\)', isrc.text)
    if not m:
        raise CutError('HTML_ENTITIES pattern not found')
    pat = m.group(1)
    if mutation and mutation.get('pattern'):
        pat = mutation['pattern']
    pm = re.fullmatch(r'&\(\[([^\]]*)\](?:\[([^\]]*)\]\*\??|\+\??)\);', pat)
    if not pm:
        raise CutError('entity pattern %r is not of the shape &([..][..]*?); or &([..]+?);' % pat)
    c1 = parse_class(pm.group(1))
    c2 = parse_class(pm.group(2)) if pm.group(2) is not None else c1
    text = open(os.path.join(repo, 'src', 'entities.in'), encoding='utf-8').read()
    ents = re.findall(r'^\s*"([^"]+)"\s*=>\s*"((?:[^"\\]|\\.)*)"\s*,', text, re.M)
    if len(ents) < 2000:
        raise CutError('entities.in: only %d entries parsed' % len(ents))
    ents = [(k, rust_str_unescape(v)) for k, v in ents]
    if mutation and mutation.get('value'):
        k0, v0 = mutation['value']
        ents = [(k, (v0 if k == k0 else v)) for k, v in ents]
    n = len(ents)
    if max(len(k.encode()) for k, _ in ents) > KMAX or max(len(v) for _, v in ents) > VMAX:
        raise CutError('entity table entry longer than the generated array width')
    def arr(vals, width):
        return '[' + ', '.join(str(x) for x in vals + [0] * (width - len(vals))) + ']'
    keys = ',\n'.join('    ' + arr(list(k.encode()), KMAX) for k, _ in ents)
    vals = ',\n'.join('    ' + arr([ord(c) for c in v], VMAX) for _, v in ents)
    klen = ', '.join(str(len(k.encode())) for k, _ in ents)
    vlen = ', '.join(str(len(v)) for _, v in ents)
    # oracle for the expansion: the HTML5 / W3C entity set as shipped with python (html.entities.html5)
    exp = [_he.html5.get(k + ';') for k, _ in ents]
    exps = ',\n'.join('    ' + arr([ord(c) for c in (e or '')], VMAX) for e in exp)
    elen = ', '.join(str(len(e)) if e is not None else '255' for e in exp)
    def cls(name, c):
        return 'fn %s(b: u8) -> bool { %s }' % (name, ' || '.join('(b >= %d && b <= %d)' % (lo, hi) for lo, hi in c if hi < 256) or 'false')
    # ---- XML whitespace: the trim set and the collapse pattern of trim_element against XML 1.0 production S (#x20 | #x9 | #xD | #xA)
    wm = re.search(r"const WHITESPACE: &\[char\] = &\[([^\]]*)\];", isrc.text)
    wr = re.search(r'static ref WHITESPACE_MATCH: Regex = Regex::new\(r#"\[([^\]]*)\]\+"#\)', isrc.text)
    if not wm or not wr:
        raise CutError('WHITESPACE / WHITESPACE_MATCH of trim_element not found')
    def char_codes(txt):
        out = []
        for tok in re.findall(r"\\u\{([0-9A-Fa-f]+)\}|'(.)'|(.)", txt):
            if tok[0]: out.append(int(tok[0], 16))
            elif tok[1]: out.append(ord(tok[1]))
            elif tok[2] not in (',', "'") and not (tok[2] == ' ' and "'" in txt): out.append(ord(tok[2]))
        return sorted(set(out))
    ws_set = char_codes(wm.group(1))
    ws_cls = char_codes(wr.group(1))
    if mutation and mutation.get('drop_cr'):
        ws_set = [c for c in ws_set if c != 13]; ws_cls = [c for c in ws_cls if c != 13]
    CH = 125
    proofs = []
    hs = []
    for lo in range(0, n, CH):
        hi = min(n, lo + CH)
        nm = 'verif_u17a_%04d' % lo
        proofs.append('#[kani::proof]\n#[kani::unwind(%d)]\nfn %s() { let i: usize = kani::any(); if i < %d || i >= %d { return; } check(i); }' % (KMAX + 2, nm, lo, hi))
        hs.append({'name': nm, 'inputs': [('i', 'usize')], 'timeout': 600, 'covers': [{'name': 'entities.in[%d..%d]' % (lo, hi), 'file': 'src/entities.in', 'path': 'phf_map', 'line': 0, 'sha': ''}],
                   'requires': 'i is any index of the entity table in [%d, %d)' % (lo, hi),
                   'ensures': 'the name is matched in full by the capture group of the HTML_ENTITIES pattern of interface.rs (so `&name;` is found and replaced before XML parsing); the replacement is non-empty and contains < or & only as one complete numeric character reference',
                   'complete': 'loops run over the fixed array width (unwinding assertions on)',
                   'decode': (lambda ents: (lambda named: {'entity': ents[named['i']][0] if named.get('i', -1) < len(ents) else '?'}))(ents),
                   'api': (lambda ents: (lambda cex: 'set_mathml\t<math><mi>&%s;</mi></math>\n' % (ents[cex['named']['i']][0] if cex['named'].get('i', 10**9) < len(ents) else 'amp')))(ents)})
    rs = '''#![allow(dead_code)]
// GENERATED from /repo/src/entities.in (%d entries) and the HTML_ENTITIES pattern %r of /repo/src/interface.rs
const N: usize = %d;
static KEYS: [[u8; %d]; N] = [
%s
];
static KLEN: [u8; N] = [%s];
static VALS: [[u32; %d]; N] = [
%s
];
static VLEN: [u8; N] = [%s];
static EXP: [[u32; %d]; N] = [
%s
];
static ELEN: [u8; N] = [%s];
%s
%s
fn hexval(c: u32) -> u32 { if c <= 57 { c - 48 } else if c <= 70 { c - 55 } else { c - 87 } }
fn in_trim_set(c: u32) -> bool { %s }
fn in_collapse_class(c: u32) -> bool { %s }
#[kani::proof]
fn verif_u17a_xml_whitespace() {
    let c: char = kani::any(); let v = c as u32;
    let xml_s = v == 0x20 || v == 0x9 || v == 0xD || v == 0xA;          // XML 1.0, production [3] S
    assert!(in_trim_set(v) == xml_s, "trim_element trims exactly the XML whitespace characters");
    assert!(in_collapse_class(v) == xml_s, "trim_element collapses exactly the XML whitespace characters");
}
fn is_hex(c: u32) -> bool { (c >= 48 && c <= 57) || (c >= 65 && c <= 70) || (c >= 97 && c <= 102) }
fn check(i: usize) {
    let k = &KEYS[i]; let kl = KLEN[i] as usize;
    assert!(kl >= 1, "entity name is not empty");
    assert!(class_first(k[0]), "first character of the name is matched by the entity pattern");
    let mut j = 1;
    while j < %d { if j < kl { assert!(class_rest(k[j]), "every further character of the name is matched by the entity pattern"); } j += 1; }
    let v = &VALS[i]; let vl = VLEN[i] as usize;
    assert!(vl >= 1, "replacement is not empty");
    // scan: '<' never occurs raw; every '&' starts a complete numeric character reference  &#x<hex>+;
    let mut t = 0; let mut state: u8 = 0;      // 0 text, 1 after '&', 2 after '&#', 3 after '&#x' (no digit yet), 4 in hex digits
    while t < %d {
        if t < vl {
            let c = v[t];
            if state == 0 { assert!(c != 60, "no raw < in a replacement"); if c == 38 { state = 1; } }
            else if state == 1 { assert!(c == 35, "an & in a replacement starts a numeric character reference"); state = 2; }
            else if state == 2 { assert!(c == 120, "numeric character reference is written &#x"); state = 3; }
            else if state == 3 { assert!(is_hex(c), "hex digit expected"); state = 4; }
            else { assert!(is_hex(c) || c == 59, "hex digits up to the closing ;"); if c == 59 { state = 0; } }
        }
        t += 1;
    }
    assert!(state == 0, "the character reference is complete");
    // C17 "named entities versus numeric character references ... produce the same": after resolving its own character
    // references the replacement is the expansion the HTML5/W3C entity set defines for this name (a leading space before
    // a combining mark, as in the 2007 W3C file the table was taken from, is accepted)
    let el = ELEN[i] as usize;
    if el != 255 {
        let mut d = [0u32; %d]; let mut dl = 0usize; let mut acc: u32 = 0; let mut st: u8 = 0; let mut q = 0;
        while q < %d {
            if q < vl {
                let c = v[q];
                if st == 0 { if c == 38 { st = 1; acc = 0; } else { d[dl] = c; dl += 1; } }
                else if st == 1 { if c == 59 { d[dl] = acc; dl += 1; st = 0; } else if c != 35 && c != 120 { acc = acc.wrapping_mul(16).wrapping_add(hexval(c)); } }
            }
            q += 1;
        }
        let off = if dl == el + 1 && d[0] == 32 { 1 } else { 0 };
        assert!(dl == el + off, "expansion has the length the entity set defines");
        let mut w = 0;
        while w < %d { if w < el { assert!(d[w + off] == EXP[i][w], "expansion is the character sequence the HTML5/W3C entity set defines for this name"); } w += 1; }
    }
}
%s
fn main() {}
''' % (n, pat, n, KMAX, keys, klen, VMAX, vals, vlen, VMAX, exps, elen, cls('class_first', c1), cls('class_rest', c2), ' || '.join('c == %d' % x for x in ws_set) or 'false', ' || '.join('c == %d' % x for x in ws_cls) or 'false', KMAX, VMAX, VMAX, VMAX, VMAX, '\n'.join(proofs))
    hs.append({'name': 'verif_u17a_xml_whitespace', 'inputs': [('c', 'char')], 'timeout': 300,
               'covers': [{'name': 'trim_element::WHITESPACE', 'file': 'src/interface.rs', 'path': 'fn trim_element', 'line': 0, 'sha': ''}],
               'requires': 'c is ANY char', 'ensures': 'the trim set WHITESPACE and the collapse class of WHITESPACE_MATCH (both cut from trim_element) contain exactly the four XML whitespace characters U+0020, U+0009, U+000A, U+000D -- line-ending conventions (CRLF) inside token elements are insignificant'})
    return {'rs': rs, 'harnesses': hs,
            'assumptions': ['[U17a] the entity pattern is read as &(CLASS CLASS*?); with plain character classes (own 20-line class reader, not regex-syntax); lazy vs greedy does not matter before the literal ;',
                            '[U17a] oracle for expansions: python html.entities.html5 (HTML5 named character references = W3C entity set)', '[U17a] phf::Map::get(name) returns the listed value (table literal == run-time table)',
                            '[U17a] only the entity substitution is covered; namespace/prefix/MathJax-class stripping are regex rewrites of the raw string and are not'],
            'dropped': ['comments of entities.in']}


CANARIES = [
    {'name': 'pattern_letters_only', 'pattern': '&([a-zA-Z]+?);', 'expect': 'verif_u17a_1000', 'what': 'entity pattern back to letters only (defect D9)'},
    {'name': 'nvlt_is_ampersand', 'value': ('nvlt', '&#x0026;\u20d2'), 'expect': 'verif_u17a_1500', 'what': 'nvlt expands to & + U+20D2 (defect D16)'},
    {'name': 'carriage_return_not_whitespace', 'drop_cr': True, 'expect': 'verif_u17a_xml_whitespace', 'what': 'U+000D removed from the whitespace set and class'},
    {'name': 'raw_ampersand_value', 'value': ('amp', '&'), 'expect': 'verif_u17a_0500', 'what': 'value of amp becomes a raw &'},
]
