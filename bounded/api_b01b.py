"""bounded unit B01b (C01, C02 at the level of the public API): set_mathml of the REAL library (tools/replay_api, linked against /repo's working tree) on
every tree of a stated small family -- every container of a list, filled with every combination of children of a list of tokens and wrapped tokens --
and the returned MathML string checked against the C02 sentence (well-formed; one child of math; arities; no empty token; no short row without intent;
wrappers gone) and the C01 sentence (the visible token characters of the input, in document order, nothing else).
BOUNDED -- never counted as proved.  It exists because the post-state of the whole recursive DOM-to-DOM function clean_mathml is out of reach of the
contracts (only regions of it are under contract): seeded change C02_5 (a new match arm that skips the cleaning below merror) is invisible to them."""
import itertools, re
import xml.etree.ElementTree as ET

LEAVES = ['<mi>x</mi>', '<mn>2</mn>', '<mo>+</mo>']
def wrapped(l, l2):
    return [l,
            '<mstyle mathcolor="red">%s</mstyle>' % l, '<mpadded>%s</mpadded>' % l, '<mrow>%s</mrow>' % l,
            '<mstyle>%s%s</mstyle>' % (l, l2), '<mpadded>%s%s</mpadded>' % (l, l2), '<mrow>%s%s</mrow>' % (l, l2),
            '<semantics>%s<annotation encoding="application/x-tex">q</annotation></semantics>' % l,
            '<mphantom>%s</mphantom>' % l, '<merror>%s</merror>' % l, '<menclose notation="box">%s</menclose>' % l, '<msqrt>%s</msqrt>' % l,
            '<mfenced>%s</mfenced>' % l, '<mpadded><mtext> </mtext>%s</mpadded>' % l, '<mstyle><mspace width="1em"/>%s</mstyle>' % l]
CHILDREN = wrapped(LEAVES[0], LEAVES[1]) + wrapped(LEAVES[1], LEAVES[0])[1:] + [LEAVES[2], '<mspace width="1em"/>', '<mtext> </mtext>', '<mrow/>', '<mphantom><mi>z</mi></mphantom>']
SMALL = [LEAVES[0], LEAVES[1], LEAVES[2], '<mstyle>%s%s</mstyle>' % (LEAVES[0], LEAVES[1]), '<mpadded><mtext> </mtext>%s</mpadded>' % LEAVES[0], '<mrow>%s</mrow>' % LEAVES[1],
         '<mphantom><mi>z</mi></mphantom>', '<mrow/>', '<merror><mstyle>%s</mstyle></merror>' % LEAVES[0]]
CONTAINERS = [   # (template, number of children)
    ('%s', 1), ('%s%s', 2), ('<mrow>%s</mrow>', 1), ('<mrow>%s%s</mrow>', 2), ('<msqrt>%s</msqrt>', 1), ('<msqrt>%s%s</msqrt>', 2),
    ('<mfrac>%s%s</mfrac>', 2), ('<mroot>%s%s</mroot>', 2), ('<msub>%s%s</msub>', 2), ('<msup>%s%s</msup>', 2), ('<mover>%s%s</mover>', 2), ('<munder>%s%s</munder>', 2),
    ('<mtable><mtr><mtd>%s</mtd></mtr></mtable>', 1), ('<mtable><mtr><mtd>%s</mtd><mtd>%s</mtd></mtr></mtable>', 2),
    ('<menclose notation="box">%s</menclose>', 1), ('<menclose notation="box">%s%s</menclose>', 2), ('<merror>%s</merror>', 1), ('<merror>%s%s</merror>', 2),
    ('<mstyle>%s</mstyle>', 1), ('<mstyle>%s%s</mstyle>', 2), ('<mpadded>%s</mpadded>', 1), ('<mpadded>%s%s</mpadded>', 2), ('<mfenced>%s%s</mfenced>', 2),
    ('<mi>a</mi><mrow>%s%s</mrow>', 2), ('<mrow>%s%s</mrow><mo>=</mo><mn>1</mn>', 2)]
CONTAINERS3 = ['<msubsup>%s%s%s</msubsup>', '<munderover>%s%s%s</munderover>', '<mrow>%s%s%s</mrow>', '<mmultiscripts>%s%s%s</mmultiscripts>', '%s%s%s']

EXTRA_LEAVES = ['<mi>H</mi>', '<mo>|</mo>', '<mo>&#x2032;</mo>', '<mi>sin</mi>', '<mn>-3</mn>', '<mo>(</mo>']
def cases(tier='quick'):
    out = []
    children = CHILDREN
    if tier == 'thorough':      # more kinds of tokens: a chemical element, a bar, a prime, a function name, a signed number, an unmatched fence
        children = CHILDREN + [w for l in EXTRA_LEAVES for w in wrapped(l, LEAVES[0])[:7] + wrapped(l, LEAVES[0])[12:]]
    for tmpl, n in CONTAINERS:
        for combo in itertools.product(children, repeat=n):
            out.append('<math>' + tmpl % combo + '</math>')
    for tmpl in CONTAINERS3:
        for combo in itertools.product(SMALL, repeat=3):
            out.append('<math>' + tmpl % combo + '</math>')
    return out

def family_text():
    return ('(quick tier; the thorough tier adds tokens H, |, prime, sin, -3, ( in the same wrappers) %d containers with 1-2 holes x %d children (a token, or a token inside mstyle/mpadded/mrow/semantics/mphantom/merror/menclose/msqrt/mfenced, alone or with '
            'a second token or a blank, plus mspace, blank mtext, empty mrow), and %d containers with 3 holes x %d children' % (len(CONTAINERS), len(CHILDREN), len(CONTAINERS3), len(SMALL)))

TOKENS = ('mi', 'mn', 'mo', 'mtext', 'ms')
ARITY = {'mfrac': 2, 'mroot': 2, 'msub': 2, 'msup': 2, 'munder': 2, 'mover': 2, 'msubsup': 3, 'munderover': 3}
GONE = ('mfenced', 'mstyle', 'mpadded', 'mphantom', 'mspace', 'semantics', 'annotation', 'annotation-xml')
INVISIBLE = '⁡⁢⁣⁤'

def visible_in(e, out):
    """the visible token characters of an INPUT tree, in document order"""
    if e.tag in ('mphantom', 'annotation', 'annotation-xml', 'mspace'):
        return
    if e.tag in TOKENS:
        out.append(''.join(e.itertext()))
        return
    if e.tag == 'mfenced':
        kids = list(e)
        out.append(e.get('open', '('))
        for i, k in enumerate(kids):
            if i:
                out.append(',')
            visible_in(k, out)
        out.append(e.get('close', ')'))
        return
    for k in e:
        visible_in(k, out)

def visible_out(e, out):
    if e.tag in TOKENS:
        t = ''.join(e.itertext())
        if e.tag == 'mo' and e.get('data-changed') == 'added' and t and all(c in INVISIBLE for c in t):
            return                                  # an invisible operator inserted by canonicalization
        if e.tag == 'mtext' and (e.get('data-changed') in ('empty_content', 'was-mspace') or e.get('data-added') == 'missing-content'):
            return                                  # the library's placeholder / what an mspace became
        out.append(t)
        return
    for k in e:
        visible_out(k, out)

def norm(parts):
    s = ''.join(parts)
    return re.sub(r'[\s ⁡-⁤]', '', s).replace('−', '-')

def check(inp, out):
    """None if the returned string `out` satisfies C02 and C01 for the input `inp`, else a one-line reason"""
    try:
        root = ET.fromstring(out)
    except ET.ParseError as e:
        return 'C02: the returned string is not well-formed XML: %s' % e
    if root.tag != 'math' or len(list(root)) != 1:
        return 'C02: the root is %s with %d children' % (root.tag, len(list(root)))
    for e in root.iter():
        n = len(list(e))
        if e.tag in GONE:
            return 'C02: <%s> is still there' % e.tag
        if e.tag in ARITY and n != ARITY[e.tag]:
            return 'C02: <%s> has %d children' % (e.tag, n)
        if e.tag == 'mmultiscripts':
            pre = [i for i, k in enumerate(e) if k.tag == 'mprescripts']
            if len(pre) > 1 or (pre and (n % 2 != 0 or pre[0] % 2 != 1)) or (not pre and n % 2 != 1):
                return 'C02: <mmultiscripts> with %d children, mprescripts at %s' % (n, pre)
        if e.tag in TOKENS and ''.join(e.itertext()) == '':
            return 'C02: empty <%s>' % e.tag
        if e.tag == 'mrow' and n < 2 and e.get('intent') is None:
            return 'C02: <mrow> with %d child(ren) and no intent' % n
    vi, vo = [], []
    visible_in(ET.fromstring(inp), vi); visible_out(root, vo)
    if norm(vi) != norm(vo):
        return 'C01: visible characters of the input %r, of the result %r' % (norm(vi), norm(vo))
    return None

# the checker must be able to fail: outputs that violate one sentence each (vacuity guard, run on every invocation)
SELF_TEST = [('<math><mi>x</mi></math>', "<math><mrow><mi>x</mi></mrow></math>", 'C02'),
             ('<math><mi>x</mi><mn>2</mn></math>', "<math><mrow><mi>x</mi><mo data-changed='added'>⁢</mo><mn></mn></mrow></math>", 'C02'),
             ('<math><merror><mstyle><mi>x</mi></mstyle></merror></math>', "<math><merror><mstyle><mi>x</mi></mstyle></merror></math>", 'C02'),
             ('<math><mfrac><mi>x</mi><mn>2</mn></mfrac></math>', "<math><mfrac><mi>x</mi></mfrac></math>", 'C02'),
             ('<math><msqrt><mi>x</mi><mn>2</mn></msqrt></math>', "<math><msqrt><mn>2</mn></msqrt></math>", 'C01')]
