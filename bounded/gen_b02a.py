"""bounded unit B02a: pretty_print.rs handle_special_chars run natively (the function text is cut from the current source) on every concatenation of up to N
tokens of an alphabet of XML-special characters, entity fragments and invisible operators; checked: the result contains no raw markup character and an XML
parser reads it back as the input.  Stand-in for unit U02a (the unbounded Verus proof of the same function) when the body is rewritten into a shape that Verus
cannot take (e.g. a chain of str::replace calls: seeded change C01_6).  BOUNDED -- never counted as proved."""
import os, re, hashlib
TOKENS = ['"', '&', "'", '<', '>', 'a', ';', '#', 'x', 'amp', 'quot;', 'lt;', '\\u{2061}', '\\u{2063}', '\\u{e9}']
def cut_fn(text, name):
    m = re.search(r'(?m)^[ \t]*(?:pub(?:\([^)]*\))?\s+)?fn\s+' + name + r'\b', text)
    if not m:
        raise RuntimeError('fn %s not found (lost anchor)' % name)
    i = text.index('{', m.end()); depth = 0; k = i
    in_str = None
    while True:
        c = text[k]
        if in_str:
            if c == '\\': k += 1
            elif c == in_str: in_str = None
        elif c == '"': in_str = '"'
        elif c == "'" and re.match(r"'(\\.[^']*|[^'\\])'", text[k:k+12]):
            k += re.match(r"'(\\.[^']*|[^'\\])'", text[k:k+12]).end() - 1
        elif c == '{': depth += 1
        elif c == '}':
            depth -= 1
            if depth == 0: break
        k += 1
    return text[m.start():k+1], text[:m.start()].count('\n') + 1
CHECK = r'''
/// what an XML parser makes of character data / an attribute value: the five predefined entities and hexadecimal character references, resolved ONCE
fn xml_unescape(s: &str) -> Result<String, String> {
    let mut out = String::new();
    let mut rest = s;
    while let Some(i) = rest.find('&') {
        out.push_str(&rest[..i]);
        let tail = &rest[i..];
        let j = match tail.find(';') { Some(j) => j, None => return Err(format!("'&' without ';' at {:?}", tail)) };
        let name = &tail[1..j];
        let c = match name { "quot" => '"', "amp" => '&', "apos" => '\'', "lt" => '<', "gt" => '>',
            _ if name.starts_with("#x") => match u32::from_str_radix(&name[2..], 16).ok().and_then(char::from_u32) { Some(c) => c, None => return Err(format!("bad reference &{};", name)) },
            _ => return Err(format!("unknown entity &{};", name)) };
        out.push(c);
        rest = &tail[j+1..];
    }
    out.push_str(rest);
    Ok(out)
}
fn check(s: &str) -> Option<String> {
    let e = handle_special_chars(s);
    if let Some(c) = e.chars().find(|c| matches!(c, '<' | '>' | '"' | '\'')) { return Some(format!("raw {:?} in the result {:?}", c, e)); }
    match xml_unescape(&e) {
        Err(why) => Some(format!("the result {:?} is not well-formed character data: {}", e, why)),
        Ok(back) => if back == s { None } else { Some(format!("the result {:?} reads back as {:?}", e, back)) },
    }
}
fn main() {
    let tokens: &[&str] = &[TOKENS];
    let max_len: usize = MAXLEN;
    let mut n: u64 = 0;
    let mut idx: Vec<usize> = Vec::new();
    loop {
        let s: String = idx.iter().map(|&i| tokens[i]).collect();
        n += 1;
        if let Some(why) = check(&s) { println!("FAIL\tescaping_round_trip\t{}\t{}", s.escape_default(), why); return; }
        let mut k = idx.len();
        loop {
            if k == 0 { idx = vec![0; idx.len() + 1]; break; }
            k -= 1;
            if idx[k] + 1 < tokens.len() { idx[k] += 1; for j in k+1..idx.len() { idx[j] = 0; } break; }
        }
        if idx.len() > max_len { break; }
    }
    println!("DONE\tescaping_round_trip\t{}", n);
}
'''
def generate(repo, mutation=None, tier='quick'):
    text = open(os.path.join(repo, 'src', 'pretty_print.rs'), encoding='utf-8').read()
    fn, line = cut_fn(text, 'handle_special_chars')
    sha = hashlib.sha256(fn.encode()).hexdigest()[:12]
    body = fn
    if mutation:
        body2 = body.replace(mutation['old'], mutation['new'])
        assert body2 != body, 'canary mutation does not apply'
        body = body2
    n = 5 if tier == 'thorough' else 4
    toks = ', '.join('"%s"' % t.replace('"', '\\"') for t in TOKENS)
    rs = '#![allow(dead_code, unused)]\n// ---- cut from src/pretty_print.rs line %d sha %s ----\n%s\n' % (line, sha, body) + CHECK.replace('TOKENS', toks).replace('MAXLEN', str(n))
    case = {'name': 'escaping_round_trip', 'file': 'pretty_print.rs', 'regex_name': 'fn handle_special_chars', 'regex': '(function text, %d characters)' % len(fn), 'line': line, 'sha': sha,
            'label': 'bounded_escaping_round_trip', 'what': 'function', 'tokens': TOKENS, 'bound': 'all concatenations of at most %d tokens out of %d' % (n, len(TOKENS)),
            'invariant': 'C02 "special characters in text and attributes are escaped so the string parses back to the same tree": the result has no raw < > " \' , every & starts a complete reference, and resolving the references once gives back the input'}
    return {'rs': rs, 'cases': [case],
            'assumptions': ['BOUNDED, not a proof: the function is run natively on every concatenation of at most N tokens of a small alphabet; other strings are covered only by the Verus unit U02a',
                            'the XML un-escaper of the checker (five predefined entities, hexadecimal references) is written by hand'],
            'canaries': [{'name': 'ampersand_passes_raw', 'case': 'escaping_round_trip', 'old': '"&amp;"', 'new': '"&"', 'expect': 'escaping_round_trip'}]}
