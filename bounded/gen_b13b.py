"""bounded unit B13b: the pause-merging regex literals of src/tts.rs (cases and checks live in gen_b17a.py)"""
import os, importlib.util
_spec = importlib.util.spec_from_file_location('gen_b17a_shared', os.path.join(os.path.dirname(os.path.abspath(__file__)), 'gen_b17a.py'))
_m = importlib.util.module_from_spec(_spec); _spec.loader.exec_module(_m)
def generate(repo, mutation=None, tier='quick'):
    return _m.generate(repo, mutation, tier, only_file='tts.rs')
