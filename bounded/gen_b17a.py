"""generator of bounded unit B17a/B13b: regex literals of src/interface.rs (set_mathml) and src/tts.rs (pause merging) against shape invariants"""
import re, hashlib

def literals(repo, fname):
    text = open('%s/src/%s' % (repo, fname), encoding='utf-8').read()
    out = []
    for m in re.finditer(r'static ref (\w+): Regex = Regex::new\(\s*(r#".*?"#|r".*?")\s*\)\.unwrap\(\);', text, re.S):
        line = text.count('\n', 0, m.start()) + 1
        # enclosing fn name
        fn = re.findall(r'\bfn (\w+)', text[:m.start()])
        out.append({'name': m.group(1), 'lit': m.group(2), 'line': line, 'fn': fn[-1] if fn else '?', 'sha': hashlib.sha256(m.group(2).encode()).hexdigest()[:10]})
    return out

CASES = [
    # (case name, file, regex name, enclosing fn or None, tokens, max_len, rust check fn name, invariant text)
    ('mathjax_v2_class', 'interface.rs', 'MATHJAX_V2', None, ['class="MJX-a"', "class='MJX-b'", 'class = "MJX-c"', ' ', '<mi', '>', 'x', 'id="q"', "'", '"', '\\n'], 5, 'check_class_attr',
     'C17 "MathJax bookkeeping class attributes": every match is one class attribute and nothing more -- it starts with `class`, contains exactly the two quote characters that delimit the value, and no < or >'),
    ('mathjax_v3_class', 'interface.rs', 'MATHJAX_V3', None, ['class="data-mjx-a"', "class='data-mjx-b'", 'class = "data-mjx-c"', ' ', '<mi', '>', 'x', 'id="q"', "'", '"', '\\n'], 5, 'check_class_attr',
     'as for MATHJAX_V2'),
    ('mathjax_class', 'interface.rs', 'MATHJAX_CLASS', None, ['class="MJX-a"', "class='data-mjx-b'", 'class = "MJX-c"', ' ', '<mi', '>', 'x', 'id="q"', "'", '"', '\\n'], 5, 'check_class_attr',
     'as for MATHJAX_V2 (only present if the two patterns have been merged into one)'),
    ('html_entity', 'interface.rs', 'HTML_ENTITIES', None, ['&', ';', 'a', 'B', '1', 'amp', ' ', '<', '#'], 6, 'check_entity',
     'C17 "named entities": every match is `&name;` with an alphanumeric name starting with a letter, and group 1 is exactly that name'),
    ('namespace_decl', 'interface.rs', 'NAMESPACE_DECL', None, ['xmlns', ':', 'm', 'ml', '=', '"u"', ' ', '<math', '1'], 6, 'check_ns_decl',
     'C17 "a namespace prefix": every match is `xmlns:` followed by letters only'),
    ('prefix', 'interface.rs', 'PREFIX', None, ['<', '/', 'm', 'ml', ':', 'mi', '>', ' ', '="u"'], 6, 'check_prefix',
     'C17 "a namespace prefix on the elements": every match is `<` or `</` followed by letters and one colon, and group 1 is the `<` / `</`'),
    ('ssml_pause_run', 'tts.rs', 'CONSECUTIVE_BREAKS', 'merge_pauses_ssml', ["<break time='9ms'/>", '<break time="250ms"/>', ' ', 'x', "<mark name='a'/>", ','], 6, 'check_pause_run_break',
     'C13 "removing the tags leaves exactly the words": every match of the run-of-pauses pattern consists of two or more break tags and blanks, nothing else -- no word, no other tag'),
    ('sapi5_pause_run', 'tts.rs', 'CONSECUTIVE_BREAKS', 'merge_pauses_sapi5', ["<silence msec='9ms'/>", '<silence msec="250ms"/>', ' ', 'x', "<bookmark mark='a'/>", ','], 6, 'check_pause_run_silence',
     'as for SSML, with silence tags'),
    ('strip_xml_tag', 'tts.rs', 'REMOVE_XML', None, ['<a>', '<b c="d">', 'x', ' ', "<mark name='a'/>", '</a>', ','], 6, 'check_single_tag',
     'C13 (compute_auto_pause measures the words): every match is a single tag -- one < at its start, one > at its end'),
]

RUST_CHECKS = r'''
fn count(s: &str, c: char) -> usize { s.chars().filter(|&x| x == c).count() }
fn check_class_attr(re: &Regex, s: &str) -> Option<String> {
    for m in re.find_iter(s) {
        let t = m.as_str();
        if !t.starts_with("class") { return Some(format!("match {:?} does not start with class", t)); }
        if count(t, '"') + count(t, '\'') != 2 { return Some(format!("match {:?} spans more than one quoted value", t)); }
        if t.contains('<') || t.contains('>') { return Some(format!("match {:?} runs over a tag boundary", t)); }
    }
    None
}
fn check_entity(re: &Regex, s: &str) -> Option<String> {
    for c in re.captures_iter(s) {
        let t = c.get(0).unwrap().as_str();
        let g = c.get(1).map(|x| x.as_str()).unwrap_or("");
        if !(t.starts_with('&') && t.ends_with(';') && &t[1..t.len()-1] == g) { return Some(format!("match {:?} / group {:?} is not &name;", t, g)); }
        if g.is_empty() || !g.chars().next().unwrap().is_ascii_alphabetic() || !g.chars().all(|x| x.is_ascii_alphanumeric()) { return Some(format!("name {:?} is not alphanumeric", g)); }
    }
    None
}
fn check_ns_decl(re: &Regex, s: &str) -> Option<String> {
    for m in re.find_iter(s) {
        let t = m.as_str();
        if !(t.starts_with("xmlns:") && t.len() > 6 && t[6..].chars().all(|x| x.is_alphabetic())) { return Some(format!("match {:?} is not xmlns:letters", t)); }
    }
    None
}
fn check_prefix(re: &Regex, s: &str) -> Option<String> {
    for c in re.captures_iter(s) {
        let t = c.get(0).unwrap().as_str();
        let g = c.get(1).map(|x| x.as_str()).unwrap_or("");
        if !(g == "<" || g == "</") || !t.starts_with(g) { return Some(format!("group 1 {:?} of match {:?} is not the tag opener", g, t)); }
        let rest = &t[g.len()..];
        if !(rest.ends_with(':') && rest.len() > 1 && rest[..rest.len()-1].chars().all(|x| x.is_alphabetic())) { return Some(format!("match {:?} is not opener + letters + colon", t)); }
    }
    None
}
fn check_pause_run(re: &Regex, s: &str, open: &str) -> Option<String> {
    for m in re.find_iter(s) {
        let mut t = m.as_str();
        let mut n = 0;
        loop {
            t = t.trim_start_matches(' ');
            if t.is_empty() { break; }
            if !t.starts_with(open) { return Some(format!("match {:?} contains something that is not a pause tag: {:?}", m.as_str(), t)); }
            match t.find('>') { None => return Some(format!("match {:?} ends inside a tag", m.as_str())), Some(k) => { if t[1..k].contains('<') { return Some(format!("match {:?} runs over another tag", m.as_str())); } t = &t[k+1..]; n += 1; } }
        }
        if n < 2 { return Some(format!("match {:?} holds fewer than two pauses", m.as_str())); }
    }
    None
}
fn check_pause_run_break(re: &Regex, s: &str) -> Option<String> { check_pause_run(re, s, "<break time=") }
fn check_pause_run_silence(re: &Regex, s: &str) -> Option<String> { check_pause_run(re, s, "<silence msec") }
fn check_single_tag(re: &Regex, s: &str) -> Option<String> {
    for m in re.find_iter(s) {
        let t = m.as_str();
        if !(t.starts_with('<') && t.ends_with('>') && count(t, '>') == 1) { return Some(format!("match {:?} is not a single tag", t)); }
    }
    None
}
'''

ONLY_FILE = 'interface.rs'
CANARIES = {'interface.rs': [{'name': 'class_value_greedy', 'case': 'mathjax_v2_class', 'old': '.*?', 'new': '.*', 'expect': 'mathjax_v2_class'}],
            'tts.rs': [{'name': 'pause_attribute_any_char', 'case': 'ssml_pause_run', 'old': '[^>]+?', 'new': '.+?', 'expect': 'ssml_pause_run'}]}

def generate(repo, mutation=None, tier='quick', only_file=None):
    only_file = only_file or ONLY_FILE
    lits = {f: literals(repo, f) for f in ('interface.rs', 'tts.rs')}
    cases, body = [], []
    for (cname, fname, rname, fn, tokens, maxlen, check, inv) in CASES:
        if fname != only_file:
            continue
        cand = [l for l in lits[fname] if l['name'] == rname and (fn is None or l['fn'] == fn)]
        if not cand:
            continue        # a pattern that does not exist in the current source (e.g. MATHJAX_CLASS) has nothing to check
        l = cand[0]
        lit = l['lit']
        if mutation and mutation['case'] == cname:
            lit2 = lit.replace(mutation['old'], mutation['new'])
            assert lit2 != lit, 'canary mutation does not apply'
            lit = lit2
        n = maxlen + (1 if tier == 'thorough' else 0)
        cases.append({'name': cname, 'file': fname, 'regex_name': rname + ('' if fn is None else ' in ' + fn), 'regex': l['lit'], 'line': l['line'], 'sha': l['sha'],
                      'tokens': tokens, 'bound': 'all concatenations of at most %d tokens out of %d' % (n, len(tokens)), 'invariant': inv})
        toks = ', '.join('"%s"' % t.replace('\\', '\\\\').replace('"', '\\"').replace('\\\\n', '\\n') for t in tokens)
        body.append('    run("%s", Regex::new(%s).unwrap(), &[%s], %d, %s);' % (cname, lit, toks, n, check))
    rs = 'use regex::Regex;\n' + RUST_CHECKS + r'''
fn run(name: &str, re: Regex, tokens: &[&str], max_len: usize, check: fn(&Regex, &str) -> Option<String>) {
    let mut n: u64 = 0;
    let mut idx: Vec<usize> = Vec::new();
    loop {
        let s: String = idx.iter().map(|&i| tokens[i]).collect();
        n += 1;
        if let Some(why) = check(&re, &s) { println!("FAIL\t{}\t{}\t{}", name, s.escape_default(), why); return; }
        // next sequence (shortlex)
        let mut k = idx.len();
        loop {
            if k == 0 { idx = vec![0; idx.len() + 1]; break; }
            k -= 1;
            if idx[k] + 1 < tokens.len() { idx[k] += 1; for j in k+1..idx.len() { idx[j] = 0; } break; }
        }
        if idx.len() > max_len { break; }
    }
    println!("DONE\t{}\t{}", name, n);
}
fn main() {
''' + '\n'.join(body) + '\n}\n'
    return {'rs': rs, 'cases': cases,
            'assumptions': ['BOUNDED, not a proof: the regex literals are run by the real regex crate on every concatenation of at most N tokens of a small token alphabet (stated per case); '
                            'strings outside that set are not covered', 'the shape invariants are written by hand from the property statements (bounded/gen_b17a.py RUST_CHECKS)'],
            'canaries': CANARIES[only_file]}
