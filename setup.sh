#!/bin/bash
# Build what the checks need from files on disk only (offline).  Safe to re-run.
set -e
cd "$(dirname "$0")"
export CARGO_NET_OFFLINE=true
mkdir -p .cache evidence replays
# API replay driver (used only for known findings and for replaying counterexamples through the public interface)
cp /repo/Cargo.lock tools/replay_api/Cargo.lock 2>/dev/null || true
(cd tools/replay_api && CARGO_TARGET_DIR=/verif/.cache/replay-target cargo build --offline >/dev/null 2>&1) || echo "setup: replay_api build failed (only needed on violations / known findings)"
# warm up Verus (first start is slow)
cat > .cache/warm.rs <<'EOR'
use vstd::prelude::*;
verus!{ fn f(a: u8) -> (r: u8) requires a < 10 ensures r == a + 1 { a + 1 } }
fn main(){}
EOR
(cd .cache && verus warm.rs >/dev/null 2>&1) || echo "setup: verus warm-up failed"
# build the regex crate once for the bounded stand-ins (B17a, B13b, B02a)
(python3 lib/bunit.py B17a >/dev/null 2>&1 && python3 lib/bunit.py B13b >/dev/null 2>&1 && python3 lib/bunit.py B02a >/dev/null 2>&1) || echo "setup: bounded warm-up failed (the units build on first use)"
echo "setup: done"
