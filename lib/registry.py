"""registry -- which units decide which property (see DESIGN.md section 3)."""

TRUSTED_BASE = [
    'Verus 0.2026.09.13 + Z3 (verification conditions, vstd specifications of Vec/Option/Seq)',
    'Kani 0.68.0 + CBMC 6.11 + kissat (MIR translation, bit-precise symbolic execution)',
    '/verif/lib/rsx.py + vunit.py: mechanical extraction of the current text of /repo/src and the listed rewrite rules R1-R12',
    'contracts/prelude/*.rs: assumed specifications of sxd_document / std str / error-chain facades (each listed under assumptions)',
]

NOT_APPLICABLE = {
    'C06': 'whether every literal\'s cells survive is decided by Rules/Braille/* (YAML) and six regex rewrite chains; no function contract within reach of Verus or Kani can express "for every rule file", regex cannot be specified or symbolically executed here, and the UEB char passes legitimately change cells (DESIGN.md section 4)',
    'C14': 'a property of the file system, YAML parsing (yaml_rust), zip extraction and time stamps across fault/repair sequences: all external effectful library code with no pure kernel to put a contract on (DESIGN.md section 4)',
    'C15': 'a statement about the shipped data Rules/** under the XPath/YAML interpreters; nothing in /repo/src has a contract that implies it (DESIGN.md section 4)',
}

PROPS = {
    'C11': {
        'verus': ['U11a'],
        'kani': [],
        'technique': 'Verus contracts (requires/ensures, loop invariants, representation invariant, undo lemma) on the real NavigationState methods, pop_stack and set_navigation_node_from_id, extracted from src/navigate.rs on every run',
        'level_text': 'deductive proof, for all stack depths and contents, of the navigation state machine below the rule interpreter: push/pop/top/reset against a whole-view contract, undo lemma, pop_stack (top preserved, only intermediate moves removed), set_navigation_node_from_id (id exists, singleton stack, markers forgotten, Err changes nothing)',
        'level_note': 'assumed: get_node_by_id and is_leaf (DOM walks) as uninterpreted specifications, std Default for arrays, Instant::now; the rule-driven callers (apply_navigation_rules) are not verified, their obligation is the stated precondition of pop_stack; thread-local access is abstracted to a &mut parameter (R12)',
        'not_covered': [
            'ids pushed by apply_navigation_rules come from XPath results of navigate.yaml (rule data): that they belong to the expression is not decided',
            'the call-site precondition of pop_stack (count==0 or depth>=2 with a non-move bottom entry) is an obligation on the rule-driven caller and is assumed',
            'navigation modes, retry loop of do_navigate_command_string, where_am_i timing',
        ],
        'explanation': 'NavigationState stack discipline, reset, undo lemma, pop_stack and set_navigation_node_from_id proved for all stack depths and contents',
    },
}
