"""registry -- which units decide which property (see DESIGN.md section 3)."""

TRUSTED_BASE = [
    'Verus 0.2026.09.13 + Z3 (verification conditions, vstd specifications of Vec/Option/Seq)',
    'Kani 0.68.0 + CBMC 6.11 + kissat (MIR translation, bit-precise symbolic execution)',
    '/verif/lib/rsx.py + vunit.py: mechanical extraction of the current text of /repo/src and the listed rewrite rules R1-R12',
    'contracts/prelude/*.rs: assumed specifications of sxd_document / std str / error-chain facades (each listed under assumptions)',
]

NOT_APPLICABLE = {
    'C06': 'whether every literal\'s cells survive is decided by Rules/Braille/* (YAML) and six regex rewrite chains; no function contract within reach of Verus or Kani can express "for every rule file", regex cannot be specified or symbolically executed here, and the UEB char passes legitimately change cells (DESIGN.md section 4)',
    'C14': 'a property of the file system, YAML parsing (yaml_rust), zip extraction and time stamps across fault/repair sequences: all external effectful library code with no pure kernel to put a contract on (DESIGN.md section 4)',
    'C15': 'a statement about the shipped data Rules/** under the XPath/YAML interpreters; nothing in /repo/src has a contract that implies it (DESIGN.md section 4)',
}

PROPS = {
    'C11': {
        'verus': ['U11a'],
        'kani': [],
        'technique': 'Verus contracts (requires/ensures, loop invariants, representation invariant, undo lemma) on the real NavigationState methods, pop_stack and set_navigation_node_from_id, extracted from src/navigate.rs on every run',
        'level_text': 'deductive proof, for all stack depths and contents, of the navigation state machine below the rule interpreter: push/pop/top/reset against a whole-view contract, undo lemma, pop_stack (top preserved, only intermediate moves removed), set_navigation_node_from_id (id exists, singleton stack, markers forgotten, Err changes nothing)',
        'level_note': 'assumed: get_node_by_id and is_leaf (DOM walks) as uninterpreted specifications, std Default for arrays, Instant::now; the rule-driven callers (apply_navigation_rules) are not verified, their obligation is the stated precondition of pop_stack; thread-local access is abstracted to a &mut parameter (R12)',
        'not_covered': [
            'ids pushed by apply_navigation_rules come from XPath results of navigate.yaml (rule data): that they belong to the expression is not decided',
            'the call-site precondition of pop_stack (count==0 or depth>=2 with a non-move bottom entry) is an obligation on the rule-driven caller and is assumed',
            'navigation modes, retry loop of do_navigate_command_string, where_am_i timing',
        ],
        'explanation': 'NavigationState stack discipline, reset, undo lemma, pop_stack and set_navigation_node_from_id proved for all stack depths and contents',
    },
    'C18': {
        'verus': [],
        'kani': ['U18a'],
        'technique': 'Kani/CBMC on the real crate: the phf lookup SHIFT_AMOUNTS.get for every char, and MATH_VARIANTS block starts + shift_char for every (style, alphabet, index), against a specification table generated at run time from the Unicode Character Database',
        'level_text': 'complete (full-domain, loop-free symbolic) proof of the two scalar kernels of the mathvariant mapping against a UCD-derived table: every char for the lookup, every (style, alphabet, index) for the block arithmetic and the exception list, validity of the from_u32_unchecked result; the specification table itself is checked one-to-one and assigned',
        'level_note': 'oracle = UCD names via python unicodedata; the glue loop of shift_text (for ch in chars / push) is not executed by Kani (String code is out of reach, measured); unknown variant names and the DOM side of canonicalize_plane1 are not covered',
        'not_covered': ['the `for ch in old_text.chars()` glue of shift_text (12 lines) joining the two kernels', 'canonicalize_plane1 reading the attribute and writing the text back (DOM)', 'unknown mathvariant names (two-line match arm)'],
        'explanation': 'C18 mechanism decided on its scalar kernels for their full domains',
    },
    'C12': {
        'verus': ['U12a'],
        'kani': [],
        'technique': 'Verus contracts on the real PreferenceManager setters and pref_to_string (extracted from src/prefs.rs on every run) over a mathematical-map view of the two preference maps',
        'level_text': 'deductive proof, for every preference name, value and prior map state, that an accepted set reads back, that unknown names and wrong-kind values are rejected by all three setters, that an error leaves both maps exactly as before, that no preference ever changes kind and no new name appears, with whole-view/frame postconditions',
        'level_note': 'assumed: HashMap = mathematical map, yaml_rust::Yaml shape, reset_files_from_preference_change and set_separators by a contract read off their code (file system side), Display formatting of bool/i64/f64; preconditions: PreferenceManager initialised (error empty), prefs.yaml provides DecimalSeparator and Language as strings',
        'not_covered': ['language-tag normalisation and the true/false and float dispatch in interface::set_preference (string splitting, thread-local access)', 'persistence across re-reads of the preference files (time stamps)', '"affects only the outputs it is documented to affect" (rule data)'],
        'explanation': 'preference setters and getter proved against the property clauses',
    },
    'C13': {
        'verus': ['U13b'],
        'kani': ['U13a'],
        'technique': 'Verus postcondition on the real tail of TTS::replace_string (start string, enclosed speech, end string of the same command and engine on every Ok path) + Kani on the mechanically extracted start/end tag tables of get_string_ssml / get_string_sapi5 (every command, start and end)',
        'level_text': 'proof that every emitted start string is followed by the enclosed speech and the end string of the same command and engine (all commands, all engines, all rule results), and that for each of the 8 non-pause commands of SSML and SAPI5 the end string closes exactly the element the start string opens with syntactically valid attributes; the three branches of the Pause arm are checked on concrete representatives only (bounded, not counted)',
        'level_note': 'assumed: format! arguments never contain markup (they are dropped by the extraction: float formatting is intractable for CBMC); the rule interpreter (replacements.replace) is an uninterpreted function; pause merging by regex (merge_pauses_xml), bookmark elements and "removing the tags leaves the words of TTS=None" are not covered',
        'not_covered': ['merge_pauses_xml / merge_pauses_none (regex rewriting of the finished string)', 'compute_bookmark_element and that bookmark ids are ids of the expression (XPath results)', 'the first half of replace_string (spell/translate recursion, xpath evaluation)', 'words equal to the TTS=None words (rule driven)'],
        'explanation': 'tag tables and the wrapping discipline of replace_string',
    },
    'C20': {
        'verus': ['U20c', 'U07c'],
        'kani': ['U20a', 'U07b'],
        'technique': 'Kani/CBMC over every char for is_highlighted/highlight/unhighlight on the real crate + Verus frame postcondition (preference restored on every exit path) on the real body of get_navigation_node_from_braille_position',
        'level_text': 'complete proof of the dots-7-8 highlight algebra for every char (round trip, recognition, identity outside the braille block, validity of from_u32_unchecked) and unbounded proof that the cursor-routing query restores BrailleNavHighlight on every Ok and Err path of its own body',
        'level_note': 'assumed: find_navigation_node (recursive re-brailling) does not touch preferences, brackets the target and returns nodes with ids; set_preference of a declared string preference succeeds; the propagated error path of find_navigation_node itself is exempted (suspected leak, not reproducible through the API); byte/char-boundary arithmetic of highlight_braille_chars is the subject of unit U20b',
        'not_covered': ['that ids returned belong to the expression and that re-brailling is free of side effects on the tree (rule evaluation, data-nemeth-frac-level)', 'guess_child_node_ltr/rtl search arithmetic', 'the `?` after find_navigation_node (returns before restoring; suspected, no API-level failing input found)'],
        'explanation': 'highlight algebra + purity frame of the cursor-routing query',
    },
    'C03': {
        'verus': ['U03c'],
        'kani': ['U03a'],
        'technique': 'Verus contracts (representation invariant of the shift/reduce stack, loop invariant, frame) on the real reduce_stack / reduce_stack_one_time / StackInfo methods / is_nary family extracted from src/canonicalize.rs; Kani over all op_type words for the OperatorInfo form predicates (thorough tier)',
        'level_text': 'unbounded proof of the precedence comparison and stack discipline of the operator-precedence parser: every row closed by reduce_stack binds strictly tighter than the incoming operator and closing stops exactly at a row that does not; priorities below are framed; two operands are never added in a row (assert discharged from the invariant); n-ary grouping only joins operators of one priority; form predicates proved for all 2^32 flag words',
        'level_note': 'assumed: sxd_document facade (append_child/children/remove_from_parent), children of a row are elements, + and - (and the two times operators) share a priority in operator-info.in, pointer identity of static dictionary entries; canonicalize_mrows_in_mrow itself (implied-operator choice, fence matching, shift_stack) is DOM code and not covered, nor is the uniqueness-of-parse claim',
        'not_covered': ['canonicalize_mrows_in_mrow, shift_stack, determine_vertical_bar_op, find_operator (DOM + dictionary lookup)', 'chemistry re-parse (chemistry.rs)', 'uniqueness of the parse for plain rows'],
        'explanation': 'precedence comparison and stack discipline of the row parser',
    },
    'C07': {
        'verus': ['U07c', 'U10c'],
        'kani': ['U20a', 'U07b'],
        'technique': 'Kani/CBMC over every char for the three places that add or remove the dots-7-8 highlight (highlight, unhighlight, add_dots_to_braille_char) on the real crate + Verus postcondition on the real guard of highlight_braille_string (style Off or empty input returns the braille unchanged)',
        'level_text': 'complete proof, for every char, that highlighting maps braille cells to braille cells (exactly dots 7-8 added/removed, valid scalar values) and never turns a passed-through char into a cell or the reverse, and unbounded proof that with highlighting Off the braille string is returned untouched',
        'level_note': 'not decided: that rule files emit only letters of the indicator alphabet, the indicator tables vs REPLACE_INDICATORS classes (surveyed by hand: in sync for Nemeth; the other codes have a range typo `.-—` in the class that makes a table/class contract meaningless), space trimming and all regex clean-up chains, non-emptiness',
        'not_covered': ['*_INDICATOR_REPLACEMENTS tables against the REPLACE_INDICATORS character classes (regex)', 'nemeth_cleanup/ueb_cleanup/... regex chains', 'rule files and Unicode tables emit only indicator letters and cells', 'text codes LaTeX/ASCIIMath'],
        'explanation': 'highlight dots never leak or corrupt the alphabet; Off means untouched',
    },
    'C10': {
        'verus': ['U10a', 'U10c', 'U19b', 'U19c'],
        'kani': [],
        'technique': 'Verus cache-coherence invariants and history-independence postconditions on the real bodies (regions) of CanonicalizeContextPatternsCache::get and of the lazy full-Unicode-table reload in replace_single_char, with the RefCell/thread-local state made an explicit parameter',
        'level_text': 'unbounded proof, for every prior cache state satisfying the coherence invariant, that the separator patterns handed to canonicalization are the ones built from the CURRENT BlockSeparators/DecimalSeparators and that the full Unicode table in use after the lazy-load step is the one the CURRENT preferences select (history independence of these two caches)',
        'level_note': 'assumed: CanonicalizeContextPatterns::new is a function of the two preference strings; FilesAndTimes::is_file_up_to_date answers true only for the recorded path; read_unicode loads the file the current preferences select; thread-local/RefCell access abstracted to &mut (R12). Not decided: rule tables, definition sets and short Unicode tables (reload decisions in read_files use file time stamps), data-nemeth-frac-level cached on the live tree, thread isolation, "switching a preference away and back restores byte-identical output" as a whole',
        'not_covered': ['SpeechRules::read_files / definitions reload (time stamps, file system)', 'MyXPath::new compile cache', 'attributes cached on the live MathML tree during brailling', 'threads'],
        'explanation': 'two caches proved history independent',
    },
    'C19': {
        'verus': ['U19a', 'U19b', 'U19c'],
        'kani': [],
        'technique': 'Verus contracts on the real intent lexer (LexState::init/set_token/get_next, Token::as_str) over a byte/char-boundary view of &str, and Verus frame postconditions on the real recovery regions of infer_intent and build_intent with the DOM attribute state made an explicit parameter',
        'level_text': 'unbounded proof, for every attribute string (arbitrary Unicode), that the lexer never slices out of range or inside a character (error-message arguments included), returns None only at the end of input and strictly shortens the remaining input otherwise (termination of the parser loops); and that ignoring an illegal intent, or matching a property-only intent, leaves the intent attribute on the live element on every Ok and Err path',
        'level_note': 'assumed: the four ^-anchored token regexes find a non-empty prefix ending on a character boundary; str::trim/trim_start return sub-slices; the rule interpreter (match_pattern) does not change attributes of the source tree; DOM attribute accessors behave as a map. Not decided: build_intent/find_arg recursion (DOM + pattern matching), that a well-formed intent is honoured in speech (rule data)',
        'not_covered': ['build_intent, build_function, find_arg (DOM recursion)', 'speech of a well-formed intent mentions concept and arguments (Rules/intent.yaml)', 'get_properties loop (termination follows from the proved progress of get_next, not itself under contract)'],
        'explanation': 'lexer safety/progress and attribute restore frames',
    },
}
