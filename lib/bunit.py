#!/usr/bin/env python3
"""bunit -- BOUNDED stand-ins (never counted as proved): exhaustive native runs of a piece of the real code that no deductive verifier here can
reach.  Two kinds exist: one function that is a pure string transformation (B02a: handle_special_chars, stand-in for U02a when its body is rewritten
into a shape Verus cannot take), and the regular expressions of /repo/src, whose literals are cut out of the current source text on every run and run by
the real `regex` crate (the engine MathCAT links) over EVERY concatenation of up to N tokens of a stated token alphabet; each match is checked
against a shape invariant taken from the property statement.  A failure comes with the concrete input string."""
import os, re, sys, json, time, shutil, subprocess, tempfile, importlib.util
ROOT = os.path.dirname(os.path.dirname(os.path.abspath(__file__)))
REPO = os.environ.get('VERIF_REPO', '/repo')


def run_api_unit(name, tier='quick'):
    """a bounded unit at the level of the public API: bounded/api_<name>.py gives a family of inputs and a checker for the returned string; the inputs go through
    tools/replay_api (the real library, /repo's working tree)"""
    t0 = time.time()
    res = {'unit': name, 'engine': 'bounded-native', 'failures': [], 'canaries': [], 'functions': [], 'bounded': [], 'assumptions': [],
           'obligations': 0, 'discharged': 0, 'status': 'pass', 'note': ''}
    spec = importlib.util.spec_from_file_location('api_' + name, os.path.join(ROOT, 'bounded', 'api_%s.py' % name.lower()))
    mod = importlib.util.module_from_spec(spec); spec.loader.exec_module(mod)
    sys.path.insert(0, os.path.join(ROOT, 'lib'))
    import kunit
    inv = 'C02: well-formed, one child of math, arities, no empty token, no short row without intent, wrappers gone; C01: the visible token characters of the input in document order, nothing else'
    # vacuity guard: the checker rejects outputs that break one sentence each
    for inp, bad, which in mod.SELF_TEST:
        why = mod.check(inp, bad)
        ok = why is not None and why.startswith(which)
        res['canaries'].append({'canary': 'checker_rejects:' + bad[:60], 'ok': ok, 'expected_to_fail': which})
        if not ok:
            res.update(status='inconclusive', note='the checker accepted a bad output: ' + bad)
    inputs = mod.cases(tier)
    exe = kunit.build_replay_api()
    if not exe:
        res.update(status='inconclusive', note='tools/replay_api did not build', wall_s=time.time() - t0)
        return res
    wd = os.path.join(ROOT, '.cache', 'bounded', name); os.makedirs(wd, exist_ok=True)
    script = os.path.join(wd, 'script')
    open(script, 'w', encoding='utf-8').write(''.join('set_mathml\t%s\n' % i for i in inputs))
    p = subprocess.run([exe, script], capture_output=True, text=True, timeout=1500)
    lines = p.stdout.split('\n')
    if len([l for l in lines if l]) != len(inputs):
        # the driver died (stack overflow / abort cannot be caught): the input after the last answered one is the culprit
        k = len([l for l in lines if l])
        res['status'] = 'violation'
        res['failures'].append({'fn': 'set_mathml', 'label': 'bounded_api_process_died', 'kind': 'bounded check failed', 'message': 'the process died (rc=%s) on this input' % p.returncode,
                                'rendered': 'set_mathml(%s): the driver process ended without an answer: %s' % (inputs[min(k, len(inputs) - 1)], (p.stderr or '')[-300:]),
                                'counterexample': {'named': {'input': inputs[min(k, len(inputs) - 1)]}, 'meaning': 'argument of set_mathml'}})
    n_ok = n_err = 0
    def unesc(v):
        return v.replace('\\n', '\n').replace('\\t', '\t').replace('\\\\', '\\')
    for inp, line in zip(inputs, lines):
        if not line:
            continue
        kind, _, val = line.partition('\t')
        why = None
        if kind == 'PANIC':
            why = 'C08: set_mathml panicked: ' + val[:200]
        elif kind == 'OK':
            n_ok += 1
            why = mod.check(inp, unesc(val))
        else:
            n_err += 1          # an error return is allowed by C02 ("whenever setting an expression succeeds")
        if why and len(res['failures']) < 5:
            res['status'] = 'violation'
            res['failures'].append({'fn': 'set_mathml', 'label': 'bounded_api_' + why[:3], 'kind': 'bounded check failed', 'message': why,
                                    'rendered': 'set_mathml(%s): %s' % (inp, why), 'counterexample': {'named': {'input': inp}, 'meaning': 'argument of set_mathml'}})
    st = 'failed' if res['failures'] else 'success'
    res['bounded'].append({'harness': 'set_mathml_family', 'bound': '%d inputs: %s' % (len(inputs), mod.family_text()), 'status': st, 'strings_tried': len(inputs),
                           'regex': 'public API set_mathml (%d Ok, %d Err)' % (n_ok, n_err), 'invariant': inv})
    res['functions'].append({'emitted': 'set_mathml[family]', 'file': 'src/interface.rs', 'path': 'public API set_mathml -> canonicalize', 'line': None, 'sha': None, 'success': st == 'success',
                             'bounded': '%d inputs' % len(inputs), 'contract': {'requires': mod.family_text(), 'ensures': inv}})
    res['checker_cmd'] = 'tools/replay_api/target/release/replay_api .cache/bounded/%s/script   (the real library built from /repo; outputs checked by bounded/api_%s.py)' % (name, name.lower())
    res['assumptions'] = ['BOUNDED, not a proof: only the inputs of the stated family are run', 'the C01/C02 checker is written by hand from the property statements (bounded/api_%s.py)' % name.lower(),
                          'the placeholders and invisible operators that the checker ignores are recognised by their markers (data-changed / data-added)']
    res['wall_s'] = time.time() - t0
    return res


def run_unit(name, tier='quick'):
    if os.path.exists(os.path.join(ROOT, 'bounded', 'api_%s.py' % name.lower())):
        return run_api_unit(name, tier)
    t0 = time.time()
    res = {'unit': name, 'engine': 'bounded-native', 'failures': [], 'canaries': [], 'functions': [], 'bounded': [], 'assumptions': [],
           'obligations': 0, 'discharged': 0, 'status': 'pass', 'note': ''}
    spec = importlib.util.spec_from_file_location('gen_' + name, os.path.join(ROOT, 'bounded', 'gen_%s.py' % name.lower()))
    mod = importlib.util.module_from_spec(spec); spec.loader.exec_module(mod)
    wd = os.path.join(ROOT, '.cache', 'bounded', name)
    os.makedirs(os.path.join(wd, 'src'), exist_ok=True)

    def one(mutation=None):
        g = mod.generate(REPO, mutation, tier)      # {'rs': text, 'cases': [{name, file, regex, bound, invariant}], 'assumptions': [...]}
        open(os.path.join(wd, 'src', 'main.rs'), 'w', encoding='utf-8').write(g['rs'])
        open(os.path.join(wd, 'Cargo.toml'), 'w').write('[package]\nname = "%s"\nversion = "0.1.0"\nedition = "2021"\n\n[dependencies]\nregex = "1.10"\n\n[workspace]\n\n[profile.release]\nopt-level = 2\n' % name.lower())
        if not os.path.exists(os.path.join(wd, 'Cargo.lock')):
            shutil.copy(os.path.join(REPO, 'Cargo.lock'), os.path.join(wd, 'Cargo.lock'))
        env = dict(os.environ, CARGO_NET_OFFLINE='true', CARGO_TARGET_DIR=os.path.join(wd, 'target'))
        p = subprocess.run(['cargo', 'run', '--release', '--offline', '-q'], cwd=wd, env=env, capture_output=True, text=True, timeout=1500)
        return g, p
    try:
        g, p = one()
    except Exception as e:
        res.update(status='inconclusive', note='bounded engine error: %s' % e, wall_s=time.time() - t0)
        return res
    res['checker_cmd'] = 'cargo run --release --offline   (program generated from the regex literals in the current text of /repo/src by bounded/gen_%s.py)' % name.lower()
    res['assumptions'] = g.get('assumptions', [])
    if p.returncode != 0 and 'DONE' not in p.stdout and 'FAIL' not in p.stdout:
        res.update(status='inconclusive', note='bounded program did not build/run: ' + (p.stderr or '')[-400:], wall_s=time.time() - t0)
        return res
    done = dict(re.findall(r'^DONE\t(\S+)\t(\d+)', p.stdout, re.M))
    fails = re.findall(r'^FAIL\t(\S+)\t(.*?)\t(.*)$', p.stdout, re.M)
    for c in g['cases']:
        f = [x for x in fails if x[0] == c['name']]
        st = 'failed' if f else ('success' if c['name'] in done else 'no result')
        res['bounded'].append({'harness': c['name'], 'bound': c['bound'], 'status': st, 'strings_tried': int(done.get(c['name'], 0)), 'regex': c['regex'], 'invariant': c['invariant']})
        res['functions'].append({'emitted': '%s[%s]' % (c['regex_name'], c['name']), 'file': 'src/' + c['file'], 'path': c.get('what', 'regex literal') + ' ' + c['regex_name'], 'line': c.get('line'), 'sha': c.get('sha'),
                                 'success': st == 'success', 'bounded': c['bound'], 'contract': {'requires': 'every concatenation of up to the stated number of tokens of: ' + ' | '.join(c['tokens']), 'ensures': c['invariant']}})
        if f:
            res['status'] = 'violation'
            res['failures'].append({'fn': c['name'], 'label': c.get('label', 'bounded_regex_shape'), 'kind': 'bounded check failed', 'message': f[0][2],
                                    'rendered': '%s = %s on input %s: %s' % (c['regex_name'], c['regex'], f[0][1], f[0][2]),
                                    'counterexample': {'named': {'input': f[0][1]}, 'meaning': 'input string (escaped) for the piece of the real source text named above, run natively'}})
        elif st != 'success' and res['status'] == 'pass':
            res['status'] = 'inconclusive'; res['note'] = 'no result for ' + c['name']
    # canary: a mutation of the literal that must be caught
    for mut in (g.get('canaries') or [])[: (None if tier == 'thorough' else 1)]:
        try:
            g2, p2 = one(mut)
            bad = re.findall(r'^FAIL\t(\S+)\t', p2.stdout, re.M)
            ok = mut['expect'] in bad
        except Exception as e:
            ok = False
        res['canaries'].append({'canary': mut['name'], 'ok': ok, 'expected_to_fail': mut['expect']})
        if not ok and res['status'] == 'pass':
            res['status'] = 'inconclusive'; res['note'] = 'canary %s did not fail as required' % mut['name']
    if res['canaries']:
        one()       # leave the generated program of the unchanged literals behind
    res['wall_s'] = time.time() - t0
    return res


if __name__ == '__main__':
    r = run_unit(sys.argv[1], sys.argv[2] if len(sys.argv) > 2 else 'quick')
    print(json.dumps({k: v for k, v in r.items() if k != 'functions'}, indent=1, ensure_ascii=False)[:6000])
