"""vunit -- Engine V: assemble a Verus file from (a) a trusted prelude, (b) a contract file and (c) the *current* text of
functions cut out of /repo/src, run Verus on it and classify the outcome.

Spec file format (contracts/<unit>.spec): sections start with '@@ ' at column 0, sub-blocks with '%% '.

  @@ unit U11a
  @@ properties C11 C08
  @@ prelude core dom                      -> contracts/prelude/<name>.rs, in order
  @@ raw                                   verbatim Verus text
  @@ item <file> :: <path>                 a struct/enum/static/const/impl item cut from the source (rewrites apply)
  @@ fn <file> :: <path>                   a function cut from the source
  %% as <name>                             rename the emitted function (nested helpers with clashing names)
  %% ret <ident>                           name of the return value (default: ret)
  %% requires / %% ensures / %% decreases  contract text (clauses may end with  // @label )
  %% loop <k>                              text inserted between the k-th loop header and its body (invariant/decreases)
  %% hint before|after /regex/             proof text inserted before/after the statement line matching regex
  %% subst <rule> /regex/ => replacement   listed, named rewrite of the extracted text (R5, R9 ...); must match
  %% keep-nested                           do not strip nested fn items (default: they are removed; extract them separately)
  %% region /start/ .. /end/ as <sig>      cut only a region of the function body and wrap it in the given signature
  @@ canary <name>                         a mutation that MUST make the named function fail
  %% in <file> :: <path>
  %% subst /regex/ => replacement
  %% expect <emitted fn name>
"""
import os, re, json, subprocess, time, hashlib, shutil, tempfile
from rsx import RustSource, CutError, mask, match_bracket, nested_items, remove_spans

ROOT = os.path.dirname(os.path.dirname(os.path.abspath(__file__)))
REPO = os.environ.get('VERIF_REPO', '/repo')

SEMANTIC = [
    'postcondition not satisfied', 'precondition not satisfied', 'invariant not satisfied',
    'assertion failed', 'possible arithmetic underflow/overflow', 'possible division by zero',
    'decreases not satisfied', 'possible bit shift underflow/overflow', 'unable to prove',
    'failed to prove', 'loop invariant not satisfied', 'index out of bounds', 'could not prove termination',
    'unreachable', 'recommendation not met', 'precondition not met',
]
INCONCLUSIVE = ['rlimit', 'resource limit', 'timed out', 'timeout']


class SpecError(Exception):
    pass


# ---------------------------------------------------------------------------------------------------------------
# spec parsing
# ---------------------------------------------------------------------------------------------------------------
class Section:
    def __init__(self, kind, arg):
        self.kind, self.arg, self.body, self.blocks = kind, arg, [], []   # blocks: [(keyword, arg, text)]

    def block(self, kw):
        return [b for b in self.blocks if b[0] == kw]

    def one(self, kw, default=None):
        b = self.block(kw)
        return b[0] if b else default


def parse_spec(path):
    secs = []
    cur = None
    curblock = None
    for raw in open(path, encoding='utf-8').read().split('\n'):
        if raw.startswith('@@ '):
            parts = raw[3:].strip().split(None, 1)
            cur = Section(parts[0], parts[1].strip() if len(parts) > 1 else '')
            secs.append(cur)
            curblock = None
        elif raw.startswith('%% '):
            if cur is None:
                raise SpecError("%% outside a section")
            parts = raw[3:].strip().split(None, 1)
            curblock = [parts[0], parts[1].strip() if len(parts) > 1 else '', []]
            cur.blocks.append(curblock)
        elif raw.startswith('##'):
            continue
        else:
            if curblock is not None:
                curblock[2].append(raw)
            elif cur is not None:
                cur.body.append(raw)
    for s in secs:
        s.body = '\n'.join(s.body)
        s.blocks = [(k, a, '\n'.join(t)) for k, a, t in s.blocks]
    return secs


def parse_subst(arg):
    """'<rule> /regex/ => replacement'  (rule optional)"""
    m = re.match(r'(?:(\w+)\s+)?/(.*)/\s*=>\s?(.*)$', arg, re.S)
    if not m:
        raise SpecError("bad subst: " + arg)
    return m.group(1) or 'R?', m.group(2), m.group(3)


# ---------------------------------------------------------------------------------------------------------------
# rewrite rules on extracted text
# ---------------------------------------------------------------------------------------------------------------
def split_top_commas(text):
    m = mask(text)
    parts, depth, last = [], 0, 0
    for i, ch in enumerate(m):
        if ch in '([{':
            depth += 1
        elif ch in ')]}':
            depth -= 1
        elif ch == ',' and depth == 0:
            parts.append(text[last:i]); last = i + 1
        elif ch == '|' and depth == 0:
            pass
    parts.append(text[last:])
    return [p.strip() for p in parts if p.strip() != '']


def rewrite_macro(text, names, fn):
    """replace every  NAME!( ... )  /  NAME!{...} / NAME![...]  by fn(name, args_text)"""
    applied = 0
    pos = 0
    pat = re.compile(r'\b(' + '|'.join(names) + r')\s*!\s*([\(\{\[])')
    while True:
        m = mask(text)
        mm = pat.search(m, pos)
        if not mm:
            break
        ob = mm.end() - 1
        cb = match_bracket(m, ob)
        rep = fn(mm.group(1), text[ob + 1:cb])
        text = text[:mm.start()] + rep + text[cb + 1:]
        pos = mm.start() + len(rep)
        applied += 1
    return text, applied


def strip_method_call(text, method):
    """remove  .method( ... )  (used for .chain_err(|| ...))"""
    applied = 0
    pat = re.compile(r'\s*\.\s*' + method + r'\s*\(')
    while True:
        m = mask(text)
        mm = pat.search(m)
        if not mm:
            break
        ob = mm.end() - 1
        cb = match_bracket(m, ob)
        text = text[:mm.start()] + text[cb + 1:]
        applied += 1
    return text, applied


def strip_attrs_and_docs(text):
    """drop #[..] attributes and /// doc comments in extracted items (R8); #[derive(..)] on structs handled by caller"""
    out = []
    for line in text.split('\n'):
        s = line.strip()
        if s.startswith('///') or s.startswith('//!'):
            continue
        out.append(line)
    text = '\n'.join(out)
    # attributes
    while True:
        m = mask(text)
        mm = re.search(r'#\s*!?\s*\[', m)
        if not mm:
            break
        ob = mm.end() - 1
        cb = match_bracket(m, ob)
        text = text[:mm.start()] + text[cb + 1:]
    return text


def drop_cfg_wasm(text):
    """R8: remove items/fields/statements guarded by #[cfg(target_family = "wasm")]; drop the
    #[cfg(not(target_family = "wasm"))] attribute itself (its item stays)."""
    applied = 0
    while True:
        m = mask(text)
        mm = re.search(r'#\[cfg\(target_family\s*=\s*"\s*"\)\]|#\[cfg\(target_family\s*=\s*"[ ]*"\)\]', m)
        # masked text blanks the string contents; look at the real text instead
        mm = re.search(r'#\[cfg\(target_family\s*=\s*"wasm"\)\]\s*', text)
        if not mm:
            break
        # the guarded thing ends at the first ',' or ';' at depth 0 or the end of a braced item
        k = mm.end()
        depth_end = None
        while k < len(m):
            ch = m[k]
            if ch in '([':
                k = match_bracket(m, k)
            elif ch == '{':
                k = match_bracket(m, k)
                depth_end = k + 1
                break
            elif ch in ',;':
                depth_end = k + 1
                break
            k += 1
        if depth_end is None:
            raise CutError("cfg(wasm) item without end")
        text = text[:mm.start()] + text[depth_end:]
        applied += 1
    text2 = re.sub(r'#\[cfg\(not\(target_family\s*=\s*"wasm"\)\)\]\s*', '', text)
    if text2 != text:
        applied += 1
    return text2, applied


def inline_let_closures(text, log):
    """R17: `let f = |a: T, b| EXPR;` whose every later use is a direct call `f(x, y)` is inlined at each call as
    `{ let vcl_0 = x; let vcl_1 = y; let a: T = vcl_0; let b = vcl_1; EXPR }` and the `let` is dropped.  Exact for closures that are only
    called (borrow rules make the captured variables the same at creation and at the call); anything else (closure passed as a value,
    `return` inside, pattern parameters, explicit return type) is left alone -- the function then still contains a closure and a failed
    proof in it is reported as undecided, never as a violation."""
    skipped = set()
    while True:
        m = mask(text)
        mm = None
        for cand in re.finditer(r'\blet\s+(\w+)\s*=\s*(?:move\s+)?\|([^|]*)\|\s*', m):
            if cand.start() not in skipped:
                mm = cand; break
        if mm is None:
            return text
        def give_up():
            skipped.add(mm.start())
        name = mm.group(1)
        params = [q for q in split_top_commas(text[mm.start(2):mm.end(2)])]
        plist, ok = [], True
        for q in params:
            pm = re.match(r'^(mut\s+)?(\w+)\s*(?::\s*(.+))?$', q, re.S)
            if not pm:
                ok = False; break
            plist.append(((pm.group(1) or '') + pm.group(2), pm.group(3)))
        k = mm.end()
        if not ok or k >= len(m) or m[k:k + 2] == '->':
            give_up(); continue
        # closure body up to the `;` that ends the let statement
        j, bad = k, False
        while j < len(m) and m[j] != ';':
            if m[j] in '([{':
                j = match_bracket(m, j)
                if j < 0:
                    bad = True; break
            elif m[j] in ')]}':
                bad = True; break
            j += 1
        if bad or j >= len(m):
            give_up(); continue
        expr = text[k:j].strip()
        if re.search(r'\breturn\b|\?', mask(expr)) or re.search(r'\b' + name + r'\b', mask(expr)):
            give_up(); continue
        stmt_end = j + 1
        # end of the enclosing block
        depth, e = 0, stmt_end
        while e < len(m):
            if m[e] in '([{':
                depth += 1
            elif m[e] in ')]}':
                if depth == 0:
                    break
                depth -= 1
            e += 1
        uses = list(re.finditer(r'\b' + name + r'\b', m[stmt_end:e]))
        calls, fine = [], True
        for u in uses:
            a = stmt_end + u.end()
            while a < len(m) and m[a] in ' \t\n':
                a += 1
            if a >= len(m) or m[a] != '(' or (stmt_end + u.start() > 0 and m[stmt_end + u.start() - 1] in '.:'):
                fine = False; break
            cb = match_bracket(m, a)
            args = split_top_commas(text[a + 1:cb])
            if len(args) != len(plist) or any(re.search(r'\b' + name + r'\b', mask(x)) for x in args):
                fine = False; break
            calls.append((stmt_end + u.start(), cb + 1, args))
        if not fine or re.search(r'\b' + name + r'\b', m[e:]) and False:
            give_up(); continue
        for cs, ce, args in reversed(calls):
            binds = ''.join('let vcl_%d = %s; ' % (i, a) for i, a in enumerate(args))
            binds += ''.join('let %s%s = vcl_%d; ' % (pn, (': ' + pt) if pt else '', i) for i, (pn, pt) in enumerate(plist))
            text = text[:cs] + '{ ' + binds + '(' + expr + ') }' + text[ce:]
        ls = mm.start()
        text = text[:ls] + '/* R17: closure `%s` inlined at its %d call(s) */' % (name, len(calls)) + text[stmt_end:]
        log.append(('R17', 'let-bound closure `%s` inlined at its %d direct call(s)' % (name, len(calls)), 1))



_CHARLIT = r"'(?:\\u\{[0-9A-Fa-f]+\}|\\.|[^'\\])'"
def rewrite_char_set_contains(text, log, generated, tag):
    """R18: `s.contains(&['a', 'b', ..][..])` / `s.contains(&['a', ..])` / `const N: &[char] = &['a', ..]; .. s.contains(N)` (std: true iff some
    character of s is one of the listed ones) -> a generated membership predicate over the SAME literal list plus an external function
    whose specification is exactly that sentence.  Verus cannot run the array-to-slice coercion in exec code."""
    n = [0]
    def gen(chars):
        n[0] += 1
        nm = '%s_%d' % (tag, n[0])
        elems = re.findall(_CHARLIT, chars)
        cond = ' || '.join('c == %s' % e for e in elems) or 'false'
        generated.append("/// R18: generated from a `contains(&[char ..])` call in the extracted text (%d characters)\n"
                         "spec fn vcharset_%s(c: char) -> bool { %s }\n"
                         "#[verifier::external_body]\nfn vstr_contains_any_%s(s: &str) -> (r: bool)\n"
                         "    ensures r == (exists|i: int| 0 <= i < s@.len() && vcharset_%s(#[trigger] s@[i]))\n{ unimplemented!() }" % (len(elems), nm, cond, nm, nm))
        log.append(('R18', 'contains(&[%d chars]) -> generated membership predicate vcharset_%s' % (len(elems), nm), 1))
        return nm
    lst = r"&\s*\[((?:\s*" + _CHARLIT + r"\s*,?)+)\s*\]\s*(?:\[\s*\.\.\s*\])?"
    # named constants
    for m in list(re.finditer(r"(?:const|static|let)\s+(\w+)\s*:\s*&(?:'static\s+)?\[char\]\s*=\s*" + lst + r"\s*;", text)):
        name = m.group(1)
        if not re.search(r"\.contains\(\s*&?\s*" + name + r"\s*\)", text):
            continue
        nm = gen(m.group(2))
        text = text.replace(m.group(0), '/* R18: %s */' % name)
        text = re.sub(r"(\b[\w.]+?)\.contains\(\s*&?\s*" + name + r"\s*\)", lambda mm: 'vstr_contains_any_%s(%s)' % (nm, mm.group(1)), text)
    # inline lists
    while True:
        m = re.search(r"(\b[\w.]+?)\.contains\(\s*" + lst + r"\s*\)", text)
        if not m:
            break
        nm = gen(m.group(2))
        text = text[:m.start()] + 'vstr_contains_any_%s(%s)' % (nm, m.group(1)) + text[m.end():]
    return text



def apply_standard_rewrites(text, log):
    def r1(name, args):
        parts = split_top_commas(args)
        if name in ('assert', 'debug_assert'):
            return 'vassert(%s)' % parts[0]
        if name in ('assert_eq', 'debug_assert_eq'):
            return 'vassert((%s) == (%s))' % (parts[0], parts[1])
        return 'vassert((%s) != (%s))' % (parts[0], parts[1])
    text, n = rewrite_macro(text, ['assert', 'assert_eq', 'assert_ne', 'debug_assert', 'debug_assert_eq', 'debug_assert_ne'], r1)
    if n: log.append(('R1', 'assert!-family -> vassert(..) proof obligation', n))
    text, n = rewrite_macro(text, ['panic', 'unreachable', 'unimplemented', 'todo'], lambda nm, a: 'vpanic()')
    if n: log.append(('R2', 'panic!/unreachable! -> vpanic() [requires false]', n))
    text, n = rewrite_macro(text, ['debug', 'info', 'warn', 'error', 'trace', 'eprintln', 'println', 'eprint', 'print'], lambda nm, a: '()')
    if n: log.append(('R3', 'logging macro -> ()', n))
    def r4(nm, a):
        # the message payload is dropped, but arguments that can panic while being evaluated (slicing, indexing, unwrap)
        # are kept as statements so that their panic-freedom stays an obligation
        parts = split_top_commas(a)[1:]
        keep = [p for p in parts if re.search(r'\[|\.unwrap\(|\.expect\(', mask(p))]
        if keep:
            return '{ ' + ' '.join('let _ = &(%s);' % k for k in keep) + ' return Err(verr()) }'
        return 'return Err(verr())'
    text, n = rewrite_macro(text, ['bail'], r4)
    if n: log.append(('R4', 'bail!(..) -> return Err(verr()); message arguments that slice/index/unwrap are kept as `let _ = &(arg);`', n))
    text, n = strip_method_call(text, 'chain_err')
    if n: log.append(('R4', '.chain_err(..) dropped', n))
    t2 = re.sub(r"\b(const|static)\s+(\w+)\s*:\s*&(?!\s*')", r"\1 \2: &'static ", text)
    if t2 != text:
        log.append(('R8', "explicit 'static lifetime on const/static reference types (required inside verus!)", 1))
        text = t2
    text, n = drop_cfg_wasm(text)
    if n: log.append(('R8', 'cfg(wasm) items dropped / cfg(not(wasm)) attribute dropped', n))
    return text


def apply_subst(text, rule, regex, repl, log, what, count_ok=None):
    m = mask(text)
    # regex is matched against the real text (so that string literals can be named) but only at code positions:
    # a match that starts inside a comment is ignored
    pat = re.compile(regex, re.S)
    out, pos, n = [], 0, 0
    for mm in pat.finditer(text):
        if mm.start() < pos:
            continue
        # skip matches starting in a comment (masked has blank where text has non-blank and not in string)
        if text[mm.start()] not in ' \n\t' and m[mm.start()] in ' ' and not _in_string(m, text, mm.start()):
            continue
        out.append(text[pos:mm.start()])
        out.append(mm.expand(re.sub(r'\\(?![0-9]|g<)', r'\\\\', repl)))
        pos = mm.end()
        n += 1
    out.append(text[pos:])
    if n == 0 and rule == 'CANARY':
        raise CutError("subst %s /%s/ matched nothing in %s (lost anchor)" % (rule, regex, what))
    log.append((rule, '/%s/ => %s' % (regex, repl), n))
    return ''.join(out)


def _in_string(masked, text, off):
    # inside a string literal the masked text is blank but is enclosed by quotes on the same logical literal;
    # approximate: count unmasked '"' before off on the masked text
    return masked.count('"', 0, off) % 2 == 1


# ---------------------------------------------------------------------------------------------------------------
# function emission
# ---------------------------------------------------------------------------------------------------------------
def loops_in(text):
    """offsets (keyword_start, body_open_brace) of loops in order of appearance"""
    m = mask(text)
    res = []
    for mm in re.finditer(r'\b(while|loop|for)\b', m):
        kw = mm.group(1)
        k = mm.end()
        if kw == 'for':
            # skip `for<'a>` (HRTB) and `impl X for Y`
            before = m[:mm.start()].rstrip()
            if re.match(r'\s*<', m[k:]) or before.endswith('>') and re.search(r'\bimpl\b[^;{]*$', before):
                continue
            if re.search(r'\bimpl\b[^;{}]*$', before):
                continue
        n = len(m)
        while k < n:
            ch = m[k]
            if ch in '([':
                k = match_bracket(m, k)
            elif ch == '{':
                # `match x {` inside a loop header is not supported by this cutter; plain headers only
                res.append((mm.start(), k))
                break
            elif ch == ';':
                break
            k += 1
    return res


def name_return(sig, ret):
    """ '-> T' => '-> (ret: T)' ; returns (new_sig, has_ret)"""
    m = mask(sig)
    # find the parameter list
    fnm = re.search(r'\bfn\s+\w+', m)
    k = fnm.end()
    while m[k] != '(':
        if m[k] == '<':
            depth = 0
            while True:
                if m[k] == '<': depth += 1
                elif m[k] == '>' and m[k - 1] != '-':
                    depth -= 1
                    if depth == 0: break
                k += 1
        k += 1
    cp = match_bracket(m, k)
    rest = sig[cp + 1:]
    mrest = m[cp + 1:]
    arrow = mrest.find('->')
    wh = re.search(r'\bwhere\b', mrest)
    if arrow < 0:
        return sig.rstrip(), False, (wh.start() + cp + 1 if wh else None)
    tend = wh.start() if wh else len(rest)
    ty = rest[arrow + 2:tend].strip()
    new = sig[:cp + 1] + ' -> (%s: %s)' % (ret, ty) + (' ' + rest[tend:].strip() if wh else '')
    return new.rstrip(), True, None


class Emitted:
    def __init__(self):
        self.lines = []
        self.ranges = []        # (first_line, last_line, fn_emitted_name, source_ref)

    def add(self, text, owner=None, ref=None):
        first = len(self.lines) + 1
        self.lines.extend(text.split('\n'))
        if owner:
            self.ranges.append((first, len(self.lines), owner, ref))

    def owner_of(self, line):
        best = None
        for a, b, o, r in self.ranges:
            if a <= line <= b:
                if best is None or (b - a) < (best[1] - best[0]):
                    best = (a, b, o, r)
        return best

    def text(self):
        # everything lives in one private module: visibility keywords are dropped uniformly
        return '\n'.join(re.sub(r'\bpub(\s*\([^)]*\))?\s+(?=(open\s+|closed\s+)?(spec|proof|exec|fn|struct|enum|const|type|static|uninterp|broadcast|unsafe)\b)', '', l).replace('open spec fn', 'spec fn') for l in self.lines) + '\n'


class Unit:
    def __init__(self, spec_path, repo=None):
        self.spec_path = spec_path
        self.repo = repo or REPO
        self.secs = parse_spec(spec_path)
        self.name = self._one('unit')
        self.properties = self._one('properties').split()
        self.sources = {}
        self.rewrites = []          # (rule, description, count, where)
        self.functions = []         # dicts: emitted name, path, file, sha, line
        self.canaries = [s for s in self.secs if s.kind == 'canary']

    def _one(self, kind):
        for s in self.secs:
            if s.kind == kind:
                return s.arg
        raise SpecError("spec without @@ " + kind)

    def src(self, fname):
        if fname not in self.sources:
            self.sources[fname] = RustSource(os.path.join(self.repo, 'src', fname))
        return self.sources[fname]

    def _split_ref(self, arg):
        fname, _, path = arg.partition('::')
        return fname.strip(), path.strip()

    # -------------------------------------------------------------------------------------------------------
    def _extract_fn(self, sec, mutation=None):
        fname, path = self._split_ref(sec.arg)
        src = self.src(fname)
        span = src.find(path)
        log = []
        region = sec.one('region')
        if region:
            mm = re.match(r'/(.*?)/\s*\.\.\s*/(.*?)/\s+as\s+(.*)$', region[1], re.S)
            if not mm:
                raise SpecError("bad region: " + region[1])
            reg = src.region(span, mm.group(1), mm.group(2))
            sig = mm.group(3).strip()
            body = reg.text
            if region[2].strip():
                # optional epilogue after the region, e.g. a final `return x;`
                body = body + '\n' + region[2]
            text_sig, text_body = sig, '\n' + body + '\n'
            sha = reg.sha(); line = reg.line()
            log.append(('R10', 'region of %s cut between /%s/ and /%s/ and wrapped as `%s`' % (path, mm.group(1), mm.group(2), sig), 1))
        else:
            text = span.text
            if not sec.one('keep-nested'):
                inner = nested_items(span)
                if inner:
                    text = remove_spans(text, span.start, inner)
                    log.append(('R11', 'nested fn items removed from the body (emitted separately if under contract): ' + ', '.join(i.name for i in inner), len(inner)))
            text = strip_attrs_and_docs(text)
            m = mask(text)
            ob = None
            k = re.search(r'\bfn\s+\w+', m).end()
            while True:
                ch = m[k]
                if ch in '([':
                    k = match_bracket(m, k)
                elif ch == '{':
                    ob = k; break
                k += 1
            cb = match_bracket(m, ob)
            text_sig, text_body = text[:ob].strip(), text[ob + 1:cb]
            sha = span.sha(); line = span.line()
        # R6: phf_set! literal tables -> generated membership function with the SAME element list (read from the source now)
        generated = []
        for kw, arg, _ in sec.block('phfset'):
            nm = arg.split()[0]
            pat = re.compile(r'static\s+' + re.escape(nm) + r'\s*:\s*phf::Set<\s*(&?\w+)\s*>\s*=\s*phf_set!\s*\{((?:[^{}]|\{[^{}]*\})*)\}\s*;')
            mm = pat.search(text_body) or pat.search(src.text)
            if not mm:
                # braces or quotes inside a // comment of the literal confuse the pattern: retry on text with line comments blanked
                nocom = re.sub(r'//[^\n]*', lambda m_: ' ' * len(m_.group(0)), src.text)
                mm = pat.search(nocom)
            if not mm:
                raise CutError("%s: phf_set %s not found (lost anchor)" % (path, nm))
            ty = mm.group(1)
            elems = [e.strip() for e in split_top_commas(re.sub(r'//[^\n]*', '', mm.group(2))) if e.strip()]
            if ty == 'char':
                cond = ' || '.join('c == %s' % e for e in elems) or 'false'
                generated.append("/// R6: generated from `static %s: phf::Set<char> = phf_set!{..}` (%d elements; phf lookup == membership in this literal is ASSUMED)\n"
                                 "spec fn vset_%s_spec(c: char) -> bool { %s }\n"
                                 "#[verifier::external_body]\nfn vset_%s_contains(c: char) -> (r: bool)\n    ensures r == vset_%s_spec(c)\n{ unimplemented!() }" % (nm, len(elems), nm, cond, nm, nm))
            else:
                cond = ' || '.join('c == %s@' % e for e in elems) or 'false'
                generated.append("/// R6: generated from `static %s: phf::Set<&str> = phf_set!{..}` (%d elements; phf lookup == membership in this literal is ASSUMED)\n"
                                 "spec fn vset_%s_spec(c: Seq<char>) -> bool { %s }\n"
                                 "#[verifier::external_body]\nfn vset_%s_contains(c: &str) -> (r: bool)\n    ensures r == vset_%s_spec(c@)\n{ unimplemented!() }" % (nm, len(elems), nm, cond, nm, nm))
            text_body = pat.sub('', text_body)
            mb_ = pat.search(re.sub(r'//[^\n]*', lambda m_: ' ' * len(m_.group(0)), text_body))
            if mb_:
                text_body = text_body[:mb_.start()] + text_body[mb_.end():]
            while True:
                mk = mask(text_body)
                cm = re.search(r'\b' + re.escape(nm) + r'\s*\.\s*contains\s*\(', mk)
                if not cm:
                    break
                ob = cm.end() - 1
                cb = match_bracket(mk, ob)
                argt = text_body[ob + 1:cb].strip()
                if argt.startswith('&'):
                    argt = argt[1:].strip()
                text_body = text_body[:cm.start()] + 'vset_%s_contains(%s)' % (nm, argt) + text_body[cb + 1:]
            log.append(('R6', 'phf_set %s (%d elements) -> generated membership function' % (nm, len(elems)), 1))
        # rewrites
        text_body = rewrite_char_set_contains(text_body, log, generated, re.sub(r'\W+', '_', path.split('::')[-1].replace('fn ', '').strip()))
        text_body = apply_standard_rewrites(text_body, log)
        for kw, arg, _ in sec.block('subst'):
            rule, rx, rp = parse_subst(arg)
            text_body = apply_subst(text_body, rule, rx, rp, log, path)
        for kw, arg, _ in sec.block('sigsubst'):
            rule, rx, rp = parse_subst(arg)
            text_sig = apply_subst(text_sig, rule, rx, rp, log, path + ' (signature)')
        if mutation:
            rule, rx, rp = mutation
            text_body = apply_subst(text_body, 'CANARY', rx, rp, [], path)
        text_body = inline_let_closures(text_body, log)
        # visibility off, rename
        text_sig = re.sub(r'^\s*pub(\s*\([^)]*\))?\s+', '', text_sig)
        emitted = re.search(r'\bfn\s+(\w+)', text_sig).group(1)
        if sec.one('as'):
            new = sec.one('as')[1]
            text_sig = re.sub(r'\bfn\s+' + emitted + r'\b', 'fn ' + new, text_sig, 1)
            emitted = new
        ret = sec.one('ret')[1] if sec.one('ret') else 'ret'
        text_sig, has_ret, _ = name_return(text_sig, ret)
        contract = []
        for kw in ('requires', 'ensures', 'decreases'):
            b = sec.one(kw)
            if b and (b[2].strip() or b[1].strip()):
                contract.append('    %s\n%s' % (kw, (b[1] + '\n' if b[1] else '') + b[2].rstrip()))
        # loops
        lb = sec.block('loop')
        if lb:
            loops = loops_in(text_body)
            inserts = []
            for kw, arg, t in lb:
                k = int(arg.split()[0])
                if k > len(loops):
                    # the loop this invariant block belongs to is gone from the source: nothing to attach it to; what is left is verified as it is
                    log.append(('note', 'invariant block for loop %d ignored: the extracted text has %d loop(s)' % (k, len(loops)), 1))
                    continue
                inserts.append((loops[k - 1][1], '\n' + t.rstrip() + '\n'))
            for off, t in sorted(inserts, reverse=True):
                text_body = text_body[:off] + t + text_body[off:]
        # hints
        for kw, arg, t in sec.block('hint'):
            mm = re.match(r'(before|after)\s+/(.*)/\s*$', arg, re.S)
            if not mm:
                raise SpecError("bad hint: " + arg)
            m = mask(text_body)
            hm = re.search(mm.group(2), text_body)
            if not hm or (m[hm.start()] == ' ' and text_body[hm.start()] != ' '):
                raise CutError("%s: hint anchor /%s/ not found (lost anchor)" % (path, mm.group(2)))
            if mm.group(1) == 'before':
                ls = text_body.rfind('\n', 0, hm.start()) + 1
                text_body = text_body[:ls] + t.rstrip() + '\n' + text_body[ls:]
            else:
                le = text_body.find('\n', hm.end())
                le = len(text_body) if le < 0 else le
                text_body = text_body[:le] + '\n' + t.rstrip() + text_body[le:]
        # hintall: proof text inserted before EVERY line matching the regex; \\1.. refer to the regex groups
        for kw, arg, t in sec.block('hintall'):
            mm = re.match(r'before\s+/(.*)/\s*$', arg, re.S)
            if not mm:
                raise SpecError("bad hintall: " + arg)
            out_lines = []
            for bl in text_body.split('\n'):
                hm = re.search(mm.group(1), bl)
                if hm and not bl.strip().startswith('//'):
                    out_lines.append(hm.expand(t.rstrip()))
                out_lines.append(bl)
            text_body = '\n'.join(out_lines)
        attrs = ''.join(a[1] + '\n' for a in sec.block('attr'))
        full = attrs + text_sig + '\n' + '\n'.join(contract) + ('\n' if contract else '') + '{' + text_body + '}'
        mb = mask(text_body)
        n_closures = len(re.findall(r'(?<![|&\w\)\]])\|(?!\|)[^|\n;{}]*\|(?!\|)', re.sub(r'(forall|exists|choose)\s*\|[^|]*\|', '', mb)))
        n_loops = len(loops_in(text_body))
        info = {'emitted': emitted, 'file': 'src/' + fname, 'path': path, 'sha': sha, 'line': line, 'generated': generated,
                'needs_contract': ((['a closure (Verus needs an explicit closure contract)'] if n_closures and not sec.one('allow-closure') else []) +
                                   (['%d loop(s) but the contract file provides invariants for %d' % (n_loops, len(sec.block('loop')))] if n_loops > len(sec.block('loop')) else [])),
                'contract': {kw: (sec.one(kw)[1] + ' ' + sec.one(kw)[2]).strip() for kw in ('requires', 'ensures', 'decreases') if sec.one(kw)}}
        for r in log:
            self.rewrites.append((r[0], r[1], r[2], path))
        # impl wrapper?
        segs = [s.strip() for s in path.split('::')]
        impl = None
        if segs[0].startswith('impl ') and not region:
            isp = src.find(segs[0]) if len(src.find_items(re.sub(r'#\d+$', '', segs[0]))) == 1 else None
            header = (isp.sig.strip() if isp else segs[0])
            header = strip_attrs_and_docs(header).strip()
            impl = header
            info['emitted'] = re.sub(r'^impl(\s*<[^>]*>)?\s*', '', header).split('<')[0].split()[-1] + '::' + emitted
        if sec.one('wrap-impl'):
            impl = sec.one('wrap-impl')[1]
        return full, impl, info

    def _extract_item(self, sec, mutation=None):
        fname, path = self._split_ref(sec.arg)
        src = self.src(fname)
        span = src.find(path)
        log = []
        text = span.text
        derives = re.findall(r'#\[derive\(([^)]*)\)\]', text)
        text = apply_standard_rewrites(strip_attrs_and_docs(drop_cfg_wasm(text)[0]), log)
        # comments inside items are harmless
        for kw, arg, _ in sec.block('subst'):
            rule, rx, rp = parse_subst(arg)
            text = apply_subst(text, rule, rx, rp, log, path)
        if mutation:
            rule, rx, rp = mutation
            text = apply_subst(text, 'CANARY', rx, rp, [], path)
        text = re.sub(r'^\s*pub(\s*\([^)]*\))?\s+', '', text)
        keep = sec.one('derive')
        if keep:
            text = '#[derive(%s)]\n' % keep[1] + text
        for r in log:
            self.rewrites.append((r[0], r[1], r[2], path))
        return text, {'file': 'src/' + fname, 'path': path, 'sha': span.sha(), 'line': span.line(), 'derives_dropped': derives}

    # -------------------------------------------------------------------------------------------------------
    def _refinement_check(self, sec):
        """`@@ refines <unit> :: <fn>` + `%% call <expr>`: the contract that ANOTHER unit assumes for a function proved in this unit
        (its `external_body` declaration, copied from that unit's contract file on every run) is put on a wrapper whose body is the
        call of the function as proved here.  Verus then checks: assumed precondition ==> proved precondition, proved postcondition ==>
        assumed postcondition.  This replaces "the copies are kept in sync by hand" by a discharged obligation."""
        other, fname = [x.strip() for x in sec.arg.split('::')]
        text = open(os.path.join(ROOT, 'contracts', other + '.spec'), encoding='utf-8').read()
        m = re.search(r'#\[verifier::external_body\]\s*(?:pub\s+)?fn\s+' + re.escape(fname) + r'\b(.*?)\{\s*unimplemented!\(\)\s*\}', text, re.S)
        if not m:
            raise SpecError("refines: no external_body declaration of fn %s in contracts/%s.spec" % (fname, other))
        header = re.sub(r'//[^\n]*', '', m.group(1))          # comments (and @labels) of the other unit are not carried over
        call = sec.one('call')
        if not call:
            raise SpecError("refines %s: no %%%% call" % sec.arg)
        wname = '%s__as_assumed_in_%s' % (fname, other)
        self.refinements = getattr(self, 'refinements', []) + [{'wrapper': wname, 'assumed_in': other, 'function': fname}]
        return ("// ---- refinement check: the contract unit %s ASSUMES for `%s` (text copied from contracts/%s.spec on this run) against the function as proved here ----\n"
                "fn %s%s{ %s }" % (other, fname, other, wname, header, call[1]))

    def assemble(self, canary=None):
        """returns Emitted. canary: Section of kind canary or None"""
        self.rewrites = []
        self.functions = []
        self.items = []
        em = Emitted()
        em.add("// GENERATED by /verif/lib/vunit.py from %s and the current text of %s/src -- do not edit" % (os.path.relpath(self.spec_path, ROOT), self.repo))
        em.add("#![allow(unused_imports, unused_variables, unused_mut, unused_assignments, dead_code, unused_parens, unused_braces, non_snake_case, unreachable_code, non_upper_case_globals, non_camel_case_types)]")
        em.add("use vstd::prelude::*;")
        em.add("verus! {")
        mut_target, mutation = None, None
        if canary is not None:
            mut_target = canary.one('in')[1].replace(' ', '')
            mutation = parse_subst(canary.one('subst')[1])
        mutated = False
        seen_generated = set()
        for s in self.secs:
            if s.kind == 'prelude':
                for p in s.arg.split():
                    em.add("// ---- prelude %s (trusted) ----" % p)
                    em.add(open(os.path.join(ROOT, 'contracts', 'prelude', p + '.rs'), encoding='utf-8').read())
            elif s.kind == 'raw':
                em.add(s.body)
            elif s.kind == 'refines':
                em.add(self._refinement_check(s))
            elif s.kind == 'item':
                mu = mutation if (mut_target and s.arg.replace(' ', '') == mut_target) else None
                mutated |= mu is not None
                text, info = self._extract_item(s, mu)
                em.add("// ---- extracted item %s line %d sha %s ----" % (s.arg, info['line'], info['sha']))
                em.add(text)
                self.items.append(info)
            elif s.kind == 'fn':
                mu = mutation if (mut_target and s.arg.replace(' ', '') == mut_target) else None
                try:
                    text, impl, info = self._extract_fn(s, mu)
                    mutated |= mu is not None
                except CutError as e:
                    # several sections may cut regions out of the same function: the canary's mutation belongs to the one it matches
                    if mu is None or 'CANARY' not in str(e):
                        raise
                    text, impl, info = self._extract_fn(s, None)
                em.add("// ---- extracted fn %s line %d sha %s ----" % (s.arg, info['line'], info['sha']))
                for g in info.get('generated', []):
                    if g not in seen_generated:         # the same table may be used by several functions of one unit: emit it once
                        seen_generated.add(g)
                        em.add(g)
                if impl:
                    em.add(impl + " {")
                em.add(text, owner=info['emitted'], ref=info)
                if impl:
                    em.add("}")
                self.functions.append(info)
        if canary is not None and not mutated:
            raise SpecError("canary %s: target %s is not an extracted section" % (canary.arg, canary.one('in')[1]))
        em.add("} // verus!")
        em.add("fn main() {}")
        return em


# ---------------------------------------------------------------------------------------------------------------
# running Verus
# ---------------------------------------------------------------------------------------------------------------
def run_verus(path, rlimit=None, threads=None, extra=None, timeout=900):
    cmd = ['verus', path, '--error-format=json', '--output-json', '--time-expanded', '--multiple-errors', '4']
    if rlimit:
        cmd += ['--rlimit', str(rlimit)]
    if threads:
        cmd += ['--num-threads', str(threads)]
    if extra:
        cmd += extra
    t0 = time.time()
    try:
        p = subprocess.run(cmd, stdout=subprocess.PIPE, stderr=subprocess.PIPE, text=True, timeout=timeout,
                           cwd=os.path.dirname(path))
        out, err, rc = p.stdout, p.stderr, p.returncode
    except subprocess.TimeoutExpired as e:
        out, err, rc = (e.stdout or b'').decode() if isinstance(e.stdout, bytes) else (e.stdout or ''), 'TIMEOUT', 124
    wall = time.time() - t0
    try:
        js = json.loads(out) if out.strip() else {}
    except Exception:
        js = {}
    diags = []
    for line in err.split('\n'):
        line = line.strip()
        if line.startswith('{'):
            try:
                d = json.loads(line)
            except Exception:
                continue
            if d.get('$message_type') == 'diagnostic':
                diags.append(d)
    return {'cmd': ' '.join(cmd), 'rc': rc, 'json': js, 'diags': diags, 'stderr': err, 'wall_s': wall}


def fn_breakdown(js):
    res = {}
    try:
        mods = js['times-ms']['smt']['smt-run-module-times']
    except Exception:
        return res
    for mo in mods:
        for f in mo.get('function-breakdown', []):
            name = f['function']
            e = res.setdefault(name, {'success': True, 'time_ms': 0, 'queries': 0})
            e['success'] = e['success'] and bool(f.get('success'))
            e['time_ms'] += f.get('time-micros', 0) / 1000.0
            e['queries'] += 1
    return res


def classify(unit, em, res):
    """-> dict(status=pass|violation|inconclusive, failures=[...], functions={...}, note=str)"""
    js, diags = res['json'], res['diags']
    vr = js.get('verification-results', {})
    fb = fn_breakdown(js)
    errors = [d for d in diags if d.get('level') == 'error' and not d['message'].startswith('aborting due to')]
    failures, hard = [], []
    for d in errors:
        msg = d['message']
        low = msg.lower()
        spans = d.get('spans', [])
        prim = [s for s in spans if s.get('is_primary')] or spans
        line = prim[0]['line_start'] if prim else 0
        owner = None
        label = None
        for s in prim + [x for x in spans if x not in prim]:
            o = em.owner_of(s['line_start'])
            if o and owner is None:
                owner = o
        for s in spans:
            for ln in range(s['line_start'], s['line_end'] + 1):
                if 1 <= ln <= len(em.lines):
                    mm = re.search(r'//\s*@(\w+)', em.lines[ln - 1])
                    if mm and label is None:
                        label = mm.group(1)
        kind = None
        for k in SEMANTIC:
            if k in low:
                kind = k; break
        inconc = any(k in low for k in INCONCLUSIVE)
        entry = {'message': msg, 'line': line, 'fn': owner[2] if owner else None, 'label': label,
                 'text': em.lines[line - 1].strip() if 1 <= line <= len(em.lines) else '', 'rendered': d.get('rendered', '')[:1500]}
        if kind and not inconc:
            entry['kind'] = kind
            failures.append(entry)
        else:
            hard.append(entry)
    functions = {}
    for f in unit.functions:
        key = f['emitted']
        # verus names: crate::Type::fn  or  crate::fn ; match on suffix
        cand = [n for n in fb if n.split('::', 1)[-1].replace('impl&%', '').endswith(key.split('::')[-1])]
        functions[key] = {'success': None, 'time_ms': None}
        for n in fb:
            tail = n.split('::')[1:]
            if '::'.join(tail) == key or tail[-1:] == [key] or (len(tail) >= 2 and tail[-1] == key.split('::')[-1] and key.split('::')[0] in tail[0]):
                e = functions[key]
                e['success'] = fb[n]['success'] if e['success'] is None else (e['success'] and fb[n]['success'])
                e['time_ms'] = (e['time_ms'] or 0) + fb[n]['time_ms']
    status = 'pass'
    note = ''
    if res['rc'] == 124:
        status, note = 'inconclusive', 'verus timed out'
    elif hard:
        status, note = 'inconclusive', 'non-semantic verus/rustc error: ' + hard[0]['message'][:300]
    elif failures:
        status = 'violation'
    elif not vr.get('success', False):
        status, note = 'inconclusive', 'verus did not report success (rc=%s) %s' % (res['rc'], res['stderr'][-400:])
    return {'status': status, 'failures': failures, 'hard': hard, 'functions': functions, 'all_functions': fb,
            'verified': vr.get('verified'), 'errors': vr.get('errors'), 'note': note}


ASSUME_PAT = re.compile(r'(#\[verifier::external_body\]|#\[verifier::external\]|\bassume\s*\(|\badmit\s*\(|assume_specification|#\[verifier::external_type_specification\]|\buninterp\b|#\[verifier::truncate\]|\bbroadcast\s+(proof\s+)?fn\b.*\baxiom)')


def scan_assumptions(em):
    """mechanical scan of the generated file for everything that is assumed rather than proved"""
    res = []
    lines = em.lines
    for i, l in enumerate(lines):
        if l.strip().startswith('//'):
            continue
        mm = ASSUME_PAT.search(l)
        if mm:
            # name the item: next line containing fn/struct/spec fn
            name = ''
            # an attribute or `uninterp` stands in FRONT of the item it marks; admit()/assume() stand INSIDE the body of the item
            inside = re.match(r'\s*(admit|assume)\s*\(', mm.group(1)) is not None
            for j in (range(i, max(i - 16, -1), -1) if inside else range(i, min(i + 6, len(lines)))):
                m2 = re.search(r'\b(fn|struct|enum|type)\s+(\w+)', lines[j])
                if m2:
                    name = m2.group(2); break
            res.append('%s %s' % (mm.group(1).strip('#[]( '), name))
    # de-duplicate, keep order
    seen, out = set(), []
    for r in res:
        if r not in seen:
            seen.add(r); out.append(r)
    return out


def workdir(unit_name):
    d = os.path.join(ROOT, '.cache', 'verus', unit_name)
    os.makedirs(d, exist_ok=True)
    return d


def verify_unit(spec_path, canaries='none', rlimit=None, seed=None, keep=True, repo=None):
    """Run one unit.  canaries: 'none' | 'first' | 'all'.
    returns dict with status, obligations, discharged, failures, canary results, assumptions, functions, timings."""
    unit = Unit(spec_path, repo)
    out = {'unit': unit.name, 'properties': unit.properties, 'spec': os.path.relpath(spec_path, ROOT)}
    wd = workdir(unit.name)
    try:
        em = unit.assemble()
    except (CutError, SpecError) as e:
        out.update(status='inconclusive', note='extraction: %s' % e, obligations=0, discharged=0, failures=[], canaries=[], assumptions=[], functions=[])
        return out
    path = os.path.join(wd, unit.name + '.rs')
    open(path, 'w', encoding='utf-8').write(em.text())
    extra = ['--smt-option', 'smt.random_seed=%d' % (seed % 1000)] if seed else None
    res = run_verus(path, rlimit=rlimit, extra=extra)
    cl = classify(unit, em, res)
    # obligations: every function Verus generated queries for inside this file (extracted fns, lemmas, witnesses)
    own = set(f['emitted'].split('::')[-1] for f in unit.functions)
    AX = re.compile(r'^axiom_')
    for sct in unit.secs:
        if sct.kind == 'raw':
            own |= set(n for n in re.findall(r'\bfn\s+(\w+)', sct.body) if not AX.match(n))
    own |= set(r['wrapper'] for r in getattr(unit, 'refinements', []))
    # prelude functions (vassert, facade methods, ...) and constants are not counted as obligations
    allf = {n: v for n, v in cl['all_functions'].items() if n.split('::')[-1] in own}
    obligations = len(allf)
    discharged = sum(1 for v in allf.values() if v['success'])
    missing = [f['emitted'] for f in unit.functions if cl['functions'].get(f['emitted'], {}).get('success') is None]
    out.update(status=cl['status'], note=cl['note'], obligations=obligations, discharged=discharged,
               failures=cl['failures'], hard=cl['hard'], checker_cmd=res['cmd'], wall_s=res['wall_s'],
               functions=[dict(f, **cl['functions'].get(f['emitted'], {})) for f in unit.functions],
               items=unit.items, lemmas_and_witnesses=sorted(n for n in allf if not any(n.endswith(f['emitted'].split('::')[-1]) for f in unit.functions)),
               solver_ms={n: round(v['time_ms'], 1) for n, v in allf.items()},
               rewrites=[{'rule': r[0], 'what': r[1], 'count': r[2], 'in': r[3]} for r in unit.rewrites],
               assumptions=scan_assumptions(em), generated=path, verus_version=(res['json'].get('verus') or {}).get('version'))
    if cl['status'] == 'violation':
        # a failed proof in a function that now contains a construct the contract file has no contract for (a closure, a
        # loop without invariant) is UNDECIDED, never an alarm: the verifier cannot see through it (Part I, false alarms)
        nc = {f['emitted']: f.get('needs_contract') for f in unit.functions if f.get('needs_contract')}
        real = [f for f in cl['failures'] if f.get('fn') not in nc]
        if not real:
            out['status'] = 'inconclusive'
            out['note'] = 'proof failed in ' + ', '.join('%s (contains %s)' % (k, '; '.join(v)) for k, v in nc.items() if any(f.get('fn') == k for f in cl['failures']))
            out['failures'] = []
        else:
            out['failures'] = real
    if cl['status'] == 'pass' and missing:
        out['status'] = 'inconclusive'
        out['note'] = 'no verification query was generated for: ' + ', '.join(missing)
    if cl['status'] == 'pass' and obligations == 0:
        out['status'] = 'inconclusive'; out['note'] = 'zero obligations generated'
    # canaries
    cres = []
    todo = unit.canaries if canaries == 'all' else (unit.canaries[:1] if canaries == 'first' else [])
    if canaries not in ('none', 'first', 'all'):
        todo = [c for c in unit.canaries if c.arg in canaries.split(',')]
    for c in todo if out['status'] == 'pass' else []:
        try:
            cem = unit.assemble(canary=c)
        except (CutError, SpecError) as e:
            cres.append({'canary': c.arg, 'ok': False, 'note': 'could not apply: %s' % e}); continue
        cpath = os.path.join(wd, unit.name + '__canary_' + c.arg + '.rs')
        open(cpath, 'w', encoding='utf-8').write(cem.text())
        cr = run_verus(cpath, rlimit=rlimit)
        ccl = classify(unit, cem, cr)
        expect = c.one('expect')[1] if c.one('expect') else None
        failed_fns = sorted(set(f['fn'] for f in ccl['failures'] if f['fn']))
        ok = ccl['status'] == 'violation' and (expect is None or expect in failed_fns)
        cres.append({'canary': c.arg, 'mutation': c.one('subst')[1], 'in': c.one('in')[1], 'expected_to_fail': expect,
                     'failed': failed_fns, 'labels': sorted(set(f['label'] or f['kind'] for f in ccl['failures'])), 'ok': ok,
                     'note': ccl['note']})
        if not keep:
            os.remove(cpath)
    out['canaries'] = cres
    # re-assemble so unit state reflects the un-mutated tree
    if out['status'] == 'pass' and any(not c['ok'] for c in cres):
        out['status'] = 'inconclusive'
        out['note'] = 'canary did not fail as required (contract too weak or anchor lost): ' + ', '.join(c['canary'] for c in cres if not c['ok'])
    return out


if __name__ == '__main__':
    import sys
    r = verify_unit(sys.argv[1], canaries=(sys.argv[2] if len(sys.argv) > 2 else 'none'))
    brief = {k: v for k, v in r.items() if k not in ('rewrites', 'solver_ms', 'items')}
    print(json.dumps(brief, indent=1, ensure_ascii=False)[:6000])
