"""rsx -- a small Rust source cutter.

Cuts items (fn / impl / struct / enum / static / const / macro invocations) and regions out of the *current*
text of a Rust source file by name path, never by line number.  It does not parse Rust; it tokenizes far enough to
know where strings, chars, lifetimes and comments are, and matches brackets on the remaining code.

Used by the Verus engine (extracted text is spliced into a verus!{} file) and by the Kani engines (anchors for
injected harnesses, extracted tables).
"""
import re, hashlib


class CutError(Exception):
    """An anchor was not found / is ambiguous: the check must answer exit 2 (lost anchor), never an alarm."""


def mask(text):
    """Return text of identical length where the *contents* of comments, string literals and char literals are
    replaced by spaces (newlines kept) so that regexes and bracket matching only see code.  Comment delimiters are
    blanked too; string/char delimiters are kept ("   " / '  ')."""
    out = list(text)
    i, n = 0, len(text)

    def blank(a, b):
        for k in range(a, b):
            if out[k] != '\n':
                out[k] = ' '

    while i < n:
        c = text[i]
        if c == '/' and i + 1 < n and text[i + 1] == '/':
            j = text.find('\n', i)
            j = n if j < 0 else j
            blank(i, j)
            i = j
        elif c == '/' and i + 1 < n and text[i + 1] == '*':
            depth, j = 1, i + 2
            while j < n and depth:
                if text.startswith('/*', j):
                    depth += 1; j += 2
                elif text.startswith('*/', j):
                    depth -= 1; j += 2
                else:
                    j += 1
            blank(i, j)
            i = j
        elif c == '"' or (c in 'br' and re.match(r'(b?r#*"|b")', text[i:i + 12]) and (i == 0 or not (text[i - 1].isalnum() or text[i - 1] == '_'))):
            m = re.match(r'(b?)(r(#*))?"', text[i:])
            if m.group(2) is not None:      # raw string
                hashes = m.group(3)
                start = i + m.end()
                endtok = '"' + hashes
                j = text.find(endtok, start)
                if j < 0:
                    raise CutError("unterminated raw string")
                blank(start, j)
                i = j + len(endtok)
            else:
                start = i + m.end()
                j = start
                while j < n and text[j] != '"':
                    j += 2 if text[j] == '\\' else 1
                blank(start, j)
                i = j + 1
        elif c == "'":
            # char literal or lifetime
            m = re.match(r"'(\\x[0-9a-fA-F]{2}|\\u\{[0-9a-fA-F_]+\}|\\.|[^\\'])'", text[i:])
            if m:
                blank(i + 1, i + m.end() - 1)
                i += m.end()
            else:
                i += 1      # lifetime
        else:
            i += 1
    return ''.join(out)


_OPEN = {'(': ')', '[': ']', '{': '}'}
_CLOSE = {v: k for k, v in _OPEN.items()}


def match_bracket(masked, i):
    """masked[i] is an opening bracket; return index of its partner."""
    stack = []
    n = len(masked)
    k = i
    while k < n:
        ch = masked[k]
        if ch in _OPEN:
            stack.append(ch)
        elif ch in _CLOSE:
            if not stack or stack[-1] != _CLOSE[ch]:
                raise CutError("unbalanced bracket at offset %d" % k)
            stack.pop()
            if not stack:
                return k
        k += 1
    raise CutError("no partner for bracket at offset %d" % i)


class Span:
    def __init__(self, src, start, end, kind, name, sig_end=None, body=None):
        self.src, self.start, self.end, self.kind, self.name = src, start, end, kind, name
        self.sig_end = sig_end          # offset of the body's '{' (fn / impl / struct...) or None
        self.body = body                # (open_brace_offset, close_brace_offset) or None

    @property
    def text(self):
        return self.src.text[self.start:self.end]

    @property
    def masked(self):
        return self.src.masked[self.start:self.end]

    @property
    def sig(self):
        return self.src.text[self.start:self.body[0]] if self.body else self.text

    @property
    def body_text(self):
        """text between the braces (exclusive)"""
        return self.src.text[self.body[0] + 1:self.body[1]]

    def line(self):
        return self.src.text.count('\n', 0, self.start) + 1

    def sha(self):
        return hashlib.sha256(self.text.encode()).hexdigest()[:16]


class RustSource:
    def __init__(self, path, text=None):
        self.path = path
        self.text = text if text is not None else open(path, encoding='utf-8').read()
        self.masked = mask(self.text)

    # ---- item search ---------------------------------------------------------------------------------------
    def _item_end(self, kw_off):
        """from the keyword offset find the body (first '{' at bracket depth 0 of ()[]<>-insensitive scan) or ';'"""
        m = self.masked
        k = kw_off
        depth = 0
        n = len(m)
        while k < n:
            ch = m[k]
            if ch in '([':
                k = match_bracket(m, k)
            elif ch == '{' and depth == 0:
                close = match_bracket(m, k)
                return (k, close)
            elif ch == ';' and depth == 0:
                return (None, k)
            k += 1
        raise CutError("item without end at offset %d" % kw_off)

    def _attrs_start(self, off):
        """extend backwards over attributes, doc comments and visibility so the item starts at its first token"""
        t = self.text
        start = off
        # visibility / qualifiers directly before the keyword on the same logical item
        while True:
            m = re.search(r'(pub(\s*\([^)]*\))?|unsafe|const|async|extern\s*"[^"]*"|default)\s*$', t[:start])
            if not m:
                break
            start = m.start()
        # preceding attribute / doc-comment lines
        while True:
            line_start = t.rfind('\n', 0, start) + 1
            prev_line_end = line_start - 1
            if prev_line_end <= 0:
                break
            prev_line_start = t.rfind('\n', 0, prev_line_end) + 1
            prev = t[prev_line_start:prev_line_end].strip()
            if t[line_start:start].strip() != '':
                break
            if prev.startswith('#[') or prev.startswith('///') or prev.startswith('//!'):
                start = prev_line_start + (len(t[prev_line_start:prev_line_end]) - len(t[prev_line_start:prev_line_end].lstrip()))
            else:
                break
        return start

    def find_items(self, seg, lo=0, hi=None):
        """seg: 'fn NAME', 'impl NAME', 'impl TRAIT for NAME', 'struct NAME', 'enum NAME', 'static NAME',
        'const NAME', 'type NAME', 'mod NAME', 'trait NAME', 'macro NAME' (NAME! { ... } invocation).
        returns list of Span within [lo,hi)."""
        hi = len(self.text) if hi is None else hi
        m = self.masked
        seg = seg.strip()
        kind, _, rest = seg.partition(' ')
        rest = rest.strip()
        res = []
        if kind == 'fn':
            pat = re.compile(r'\bfn\s+' + re.escape(rest) + r'\b\s*[<(]')
        elif kind == 'impl':
            if ' for ' in rest:
                tr, _, ty = rest.partition(' for ')
                pat = re.compile(r'\bimpl\b(\s*<[^{;]*?>)?\s*(?:\w+::)*' + re.escape(tr.strip()) + r'\b(\s*<[^{;]*?>)?\s+for\s+' + re.escape(ty.strip()) + r'\b')
            else:
                pat = re.compile(r'\bimpl\b(\s*<[^{;]*?>)?\s*' + re.escape(rest) + r'\b(?![^{;]*\bfor\b)')
        elif kind in ('struct', 'enum', 'trait', 'mod', 'type', 'union'):
            pat = re.compile(r'\b' + kind + r'\s+' + re.escape(rest) + r'\b')
        elif kind in ('static', 'const'):
            pat = re.compile(r'\b' + kind + r'\s+(?:ref\s+|mut\s+)?' + re.escape(rest) + r'\s*:')
        elif kind == 'macro':
            pat = re.compile(r'\b' + re.escape(rest) + r'\s*!\s*[\{\(\[]')
        else:
            raise CutError("unknown segment kind: " + seg)
        for mm in pat.finditer(m, lo, hi):
            kw = mm.start()
            if kind == 'macro':
                ob = m.find(mm.group(0)[-1], mm.start())
                cb = match_bracket(m, ob)
                end = cb + 1
                if m[end:end + 1] == ';':
                    end += 1
                res.append(Span(self, kw, end, kind, rest, ob, (ob, cb)))
                continue
            if kind in ('static', 'const'):
                # ends at ';' at depth 0 (initialiser may contain braces)
                k = mm.end()
                while True:
                    ch = m[k]
                    if ch in _OPEN:
                        k = match_bracket(m, k)
                    elif ch == ';':
                        break
                    k += 1
                start = self._attrs_start(kw)
                res.append(Span(self, start, k + 1, kind, rest))
                continue
            ob, cb = self._item_end(mm.end() - 1 if kind == 'fn' else mm.end())
            start = self._attrs_start(kw)
            if ob is None:
                res.append(Span(self, start, cb + 1, kind, rest))
            else:
                res.append(Span(self, start, cb + 1, kind, rest, ob, (ob, cb)))
        return res

    def find(self, path):
        """path: 'impl NavigationState :: fn pop' ; '#k' suffix on a segment picks the k-th match (1-based)."""
        lo, hi = 0, len(self.text)
        span = None
        segs = [s.strip() for s in path.split('::') if s.strip()]
        # re-join segments that were split inside a Rust path, e.g. 'fn foo' never has '::'
        for si, seg in enumerate(segs):
            ordinal = None
            mm = re.match(r'(.*)#(\d+)$', seg)
            if mm:
                seg, ordinal = mm.group(1).strip(), int(mm.group(2))
            cands = self.find_items(seg, lo, hi)
            if seg.startswith('impl ') and ordinal is None and len(cands) > 1 and si + 1 < len(segs):
                # several impl blocks of the same type: pick the one that contains the next segment
                nxt = re.sub(r'#\d+$', '', segs[si + 1]).strip()
                cands = [c for c in cands if c.body and self.find_items(nxt, c.body[0], c.body[1])]
            if not cands:
                raise CutError("%s: anchor '%s' of path '%s' not found" % (self.path, seg, path))
            if ordinal is not None:
                if ordinal > len(cands):
                    raise CutError("%s: '%s' has only %d matches" % (self.path, seg, len(cands)))
                span = cands[ordinal - 1]
            else:
                if len(cands) > 1:
                    # prefer the outermost-first unique: if nested duplicates exist, it's ambiguous
                    raise CutError("%s: anchor '%s' of path '%s' is ambiguous (%d matches); use #k" % (self.path, seg, path, len(cands)))
                span = cands[0]
            if span.body:
                lo, hi = span.body[0] + 1, span.body[1]
        return span

    def region(self, container, start_re, end_re):
        """text region inside container (a Span with body): from the start of the match of start_re to the end of
        the first match of end_re after it; both are regexes over *masked* code.  The region must be bracket balanced."""
        lo, hi = container.body[0] + 1, container.body[1]
        m = self.masked
        a = re.compile(start_re).search(m, lo, hi)
        if not a:
            raise CutError("%s: region start /%s/ not found" % (self.path, start_re))
        b = re.compile(end_re).search(m, a.end(), hi)
        if not b:
            raise CutError("%s: region end /%s/ not found" % (self.path, end_re))
        seg = m[a.start():b.end()]
        depth = 0
        for ch in seg:
            if ch in _OPEN:
                depth += 1
            elif ch in _CLOSE:
                depth -= 1
                if depth < 0:
                    raise CutError("region /%s/../%s/ is not balanced" % (start_re, end_re))
        if depth != 0:
            raise CutError("region /%s/../%s/ is not balanced" % (start_re, end_re))
        return Span(self, a.start(), b.end(), 'region', start_re)


def nested_items(span, kinds=('fn',)):
    """spans of nested `fn` items directly inside a fn body (any depth), outermost only."""
    src = span.src
    res = []
    if not span.body:
        return res
    lo, hi = span.body[0] + 1, span.body[1]
    pos = lo
    pat = re.compile(r'\bfn\s+(\w+)\s*[<(]')
    while True:
        mm = pat.search(src.masked, pos, hi)
        if not mm:
            break
        ob, cb = src._item_end(mm.end() - 1)
        start = src._attrs_start(mm.start())
        res.append(Span(src, start, cb + 1, 'fn', mm.group(1), ob, (ob, cb) if ob is not None else None))
        pos = cb + 1
    return res


def remove_spans(text, base, spans):
    """remove spans (absolute offsets) from text that starts at absolute offset base"""
    out, pos = [], 0
    for s in sorted(spans, key=lambda s: s.start):
        out.append(text[pos:s.start - base])
        pos = s.end - base
    out.append(text[pos:])
    return ''.join(out)


if __name__ == '__main__':
    import sys
    src = RustSource(sys.argv[1])
    sp = src.find(sys.argv[2])
    print("// %s :: %s  line %d  sha %s" % (sys.argv[1], sys.argv[2], sp.line(), sp.sha()))
    print(sp.text)
