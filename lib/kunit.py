"""kunit -- Engines K / K2: Kani on the real crate (scratch copy of /repo's working tree, harnesses injected under
#[cfg(kani)]) and stand-alone Kani on mechanically extracted fragments.

Unit file format (kani/<unit>.kspec), sections '@@', sub-blocks '%%' (same reader as vunit):

  @@ unit U20a
  @@ properties C20 C07
  @@ mode crate | standalone
  @@ helpers <file.rs>                 rust text appended (crate mode) inside  mod verif_kani_<unit> { use super::*; .. }
  @@ nested <file.rs> :: <fn path>     rust text injected at the start of that function's body (for function-local helpers)
  @@ table <name> <file> :: <item path>     (standalone) python-side extraction hook, see kani/*.py generators
  @@ harness <name>
  %% file <file.rs>                    module the harness lives in (crate mode); or  %% nested <file> :: <fn path>
  %% inputs c: char, flag: bool        scalar inputs (kani::any()); decoded from the playback vector on failure
  %% tier quick|thorough               default quick
  %% timeout <seconds>
  %% unwind <n>                        marks the harness BOUNDED (not counted as proved) unless  %% complete <reason>
  %% stub <path> <replacement>         kani::stub
  %% covers <file> :: <fn path> [, ..] functions under contract (evidence: path, line, sha)
  %% requires / %% ensures             the contract in words/Rust (evidence); the body implements them as
  %% body                              early-return (requires) and assert! (ensures)
  %% api <template>                    API script template for replaying a counterexample through the public interface
  @@ canary <name>
  %% file <file.rs>
  %% subst /regex/ => replacement
  %% expect <harness name>
"""
import os, re, json, subprocess, time, shutil, tempfile, hashlib, signal
from rsx import RustSource, CutError, mask
import vunit

ROOT = vunit.ROOT
REPO = vunit.REPO
KANI_BASE = ['-Z', 'function-contracts', '-Z', 'stubbing', '--output-format', 'terse']
KANI_FLAGS = KANI_BASE + ['-Z', 'concrete-playback', '--concrete-playback=print']      # single harness only (incompatible with -j)

JOBS = int(os.environ.get('VERIF_JOBS', '12'))
SIZES = {'bool': 1, 'u8': 1, 'i8': 1, 'u16': 2, 'i16': 2, 'u32': 4, 'i32': 4, 'char': 4, 'u64': 8, 'i64': 8, 'usize': 8, 'isize': 8, 'f64': 8, 'f32': 4}


def parse_kspec(path):
    secs = vunit.parse_spec(path)
    u = {'path': path, 'helpers': [], 'nested': [], 'harnesses': [], 'canaries': [], 'generators': []}
    for s in secs:
        if s.kind in ('unit', 'mode'):
            u[s.kind] = s.arg
        elif s.kind == 'properties':
            u['properties'] = s.arg.split()
        elif s.kind == 'helpers':
            u['helpers'].append((s.arg.strip(), s.body))
        elif s.kind == 'nested':
            u['nested'].append((s.arg.strip(), s.body))
        elif s.kind == 'generator':
            u['generators'].append((s.arg.strip(), s))
        elif s.kind == 'harness':
            h = {'name': s.arg.strip(), 'tier': 'quick', 'timeout': 300, 'inputs': [], 'covers': [], 'stubs': []}
            for kw, arg, text in s.blocks:
                if kw == 'inputs':
                    h['inputs'] = [(x.split(':')[0].strip(), x.split(':')[1].strip()) for x in arg.split(',') if x.strip()]
                elif kw in ('tier', 'file', 'nested', 'api', 'complete'):
                    h[kw] = arg
                elif kw in ('timeout', 'unwind'):
                    h[kw] = int(arg)
                elif kw == 'covers':
                    h['covers'] += [c.strip() for c in (arg + ' ' + text).replace('\n', ' ').split(',') if c.strip()]
                elif kw == 'stub':
                    h['stubs'].append(arg.split())
                elif kw in ('requires', 'ensures', 'body', 'pre'):
                    h[kw] = (arg + '\n' + text).strip('\n') if arg else text
            u['harnesses'].append(h)
        elif s.kind == 'canary':
            c = {'name': s.arg.strip()}
            for kw, arg, text in s.blocks:
                c[kw] = arg
            u['canaries'].append(c)
    u.setdefault('mode', 'crate')
    if u['mode'] == 'crate':
        # python-side generators (tables derived from external oracles such as the Unicode Character Database)
        import importlib.util
        for gname, sec in u['generators']:
            sp = importlib.util.spec_from_file_location('gen_' + u['unit'], os.path.join(ROOT, 'kani', gname))
            mod = importlib.util.module_from_spec(sp)
            sp.loader.exec_module(mod)
            g = mod.generate(REPO)
            u['helpers'] += g.get('helpers', [])
            u['nested'] += g.get('nested', [])
            for h in g.get('harnesses', []):
                hh = {'tier': 'quick', 'timeout': 300, 'inputs': [], 'covers': [], 'stubs': []}
                hh.update(h)
                u['harnesses'].append(hh)
            u['canaries'] += g.get('canaries', [])
            u.setdefault('gen_assumptions', []).extend(g.get('assumptions', []))
    return u


# ---------------------------------------------------------------------------------------------------------------
def harness_code(unit, h, nested=False):
    ins = h['inputs']
    params = ', '.join('%s: %s' % (n, t) for n, t in ins)
    anys = ', '.join('kani::any()' for _ in ins)
    name = '%s_%s' % (unit['unit'].lower(), h['name'])
    attrs = '#[kani::proof]\n'
    if 'unwind' in h:
        attrs += '#[kani::unwind(%d)]\n' % h['unwind']
    for st in h['stubs']:
        attrs += '#[kani::stub(%s, %s)]\n' % (st[0], st[1])
    parse = []
    for i, (n, t) in enumerate(ins):
        if t == 'char':
            parse.append('char::from_u32(v[%d].parse::<u32>().unwrap()).unwrap()' % i)
        elif t == 'bool':
            parse.append('(v[%d] == "1" || v[%d] == "true")' % (i, i))
        elif t in ('f64', 'f32'):
            parse.append('%s::from_bits(v[%d].parse().unwrap())' % (t, i))
        else:
            parse.append('v[%d].parse::<%s>().unwrap()' % (i, t))
    code = '''
#[cfg(any(kani, mathcat_verif_replay))]
#[allow(unused, non_snake_case)]
fn check_%(name)s(%(params)s) {
%(body)s
}
#[cfg(kani)]
%(attrs)sfn verif_%(name)s() { check_%(name)s(%(anys)s) }
''' % {'name': name, 'params': params, 'body': h.get('body', ''), 'attrs': attrs, 'anys': anys}
    if not nested:
        code += '''
#[cfg(all(test, mathcat_verif_replay))]
#[test]
fn replay_%(name)s() {
    let s = std::env::var("VERIF_REPLAY_INPUT").unwrap_or_default();
    let v: Vec<&str> = s.split(',').collect();
    check_%(name)s(%(parse)s)
}
''' % {'name': name, 'parse': ', '.join(parse)}
    return code, 'verif_' + name


def decode_playback(text, inputs):
    """concrete_vals printed by Kani -> list of python values in kani::any() order"""
    m = re.search(r'let concrete_vals: Vec<Vec<u8>> = vec!\[(.*?)\];', text, re.S)
    if not m:
        return None
    vecs = re.findall(r'vec!\[([0-9,\s]*)\]', m.group(1))
    vals = []
    for i, v in enumerate(vecs):
        b = bytes(int(x) for x in v.replace(' ', '').split(',') if x != '')
        vals.append(int.from_bytes(b, 'little'))
    out = {}
    for (n, t), v in zip(inputs, vals):
        if t == 'char':
            out[n] = {'u32': v, 'char': chr(v) if v < 0x110000 and not (0xD800 <= v <= 0xDFFF) else None, 'hex': 'U+%04X' % v}
        elif t.startswith('i') and t != 'isize' or t == 'isize':
            bits = SIZES.get(t, 8) * 8
            out[n] = v - (1 << bits) if v >= (1 << (bits - 1)) else v
        else:
            out[n] = v
    return {'raw': vals, 'named': out, 'replay_input': ','.join(str(v) for v in vals)}


def parse_kani_output(text):
    """-> {harness_full_name: {status, failed_checks, time_s, playback}} ; handles the `Thread N:` prefixes of -j runs"""
    res = {}
    blocks = {}         # harness -> text
    cur = {}            # thread id -> harness
    active = None
    for line in text.split('\n'):
        m = re.match(r'^(?:Thread (\d+): )?Checking harness (.+?)\.\.\.\s*$', line)
        if m:
            tid = m.group(1) or '-'
            cur[tid] = m.group(2)
            blocks.setdefault(m.group(2), [])
            active = m.group(2)
            continue
        m = re.match(r'^Thread (\d+): ?(.*)$', line)
        if m:
            active = cur.get(m.group(1))
            line = m.group(2)
        if active is not None:
            blocks[active].append(line)
    for name, lines in blocks.items():
        body = '\n'.join(lines)
        st = None
        if 'VERIFICATION:- SUCCESSFUL' in body:
            st = 'success'
        elif 'VERIFICATION:- FAILED' in body:
            st = 'failed'
        failed = re.findall(r'^Failed Checks: (.*?)\n\s*File: "([^"]*)", line (\d+), in (\S+)', body, flags=re.M)
        t = re.search(r'Verification Time: ([0-9.]+)s', body)
        res[name] = {'status': st, 'failed_checks': [{'check': f[0], 'file': f[1], 'line': int(f[2]), 'in': f[3]} for f in failed],
                     'time_s': float(t.group(1)) if t else None, 'raw': body[-3000:], 'unwinding_failure': bool(re.search(r'Failed Checks: unwinding assertion', body))}
    for m in re.finditer(r'Concrete playback unit test for `([^`]+)`:\s*```(.*?)```', text, re.S):
        if m.group(1) in res:
            res[m.group(1)]['playback_text'] = m.group(2)
    return res


class Scratch:
    """scratch copy of /repo's working tree, outside /repo and /verif, removed at exit"""
    def __init__(self, tag):
        base = os.environ.get('VERIF_SCRATCH', tempfile.gettempdir())
        self.dir = tempfile.mkdtemp(prefix='mathcat-verif-%s-' % tag, dir=base)
        subprocess.run(['rsync', '-a', '--exclude', 'target', '--exclude', '.git', REPO + '/', self.dir + '/'], check=True)
        ct = os.path.join(self.dir, 'Cargo.toml')
        s = open(ct).read()
        s2 = re.sub(r'^error-chain\s*=\s*"([^"]*)"', r'error-chain = { version = "\1", default-features = false }', s, flags=re.M)
        if s2 == s:
            raise CutError("Cargo.toml: error-chain dependency line not found")
        open(ct, 'w').write(s2)
        os.makedirs(os.path.join(self.dir, '.cargo'), exist_ok=True)
        open(os.path.join(self.dir, '.cargo', 'config.toml'), 'w').write('[net]\noffline = true\n')

    def cleanup(self):
        shutil.rmtree(self.dir, ignore_errors=True)


def run_cmd(cmd, cwd, timeout, env=None, mem_gb=24):
    e = dict(os.environ, CARGO_NET_OFFLINE='true')
    if env:
        e.update(env)
    t0 = time.time()
    pre = 'ulimit -v %d; ' % (mem_gb * 1024 * 1024)
    p = subprocess.Popen(['bash', '-c', pre + 'exec "$@"', 'x'] + cmd, cwd=cwd, env=e, stdout=subprocess.PIPE, stderr=subprocess.STDOUT, text=True, start_new_session=True)
    try:
        out, _ = p.communicate(timeout=timeout)
        rc = p.returncode
    except subprocess.TimeoutExpired:
        os.killpg(p.pid, signal.SIGKILL)
        out, _ = p.communicate()
        rc = 124
    return rc, out, time.time() - t0


def inject(scratch, unit, tier, only=None):
    """write harnesses into the scratch copy; returns {harness_name: (full kani fn name, harness dict)}"""
    by_file, by_nested = {}, {}
    names = {}
    for h in unit['harnesses']:
        if only and h['name'] not in only:
            continue
        if tier == 'quick' and h.get('tier') == 'thorough':
            continue
        if 'nested' in h:
            code, fn = harness_code(unit, h, nested=True)
            by_nested.setdefault(h['nested'], []).append(code)
        else:
            code, fn = harness_code(unit, h)
            by_file.setdefault(h['file'], []).append(code)
        names[h['name']] = (fn, h)
    for f, text in unit['helpers']:
        by_file.setdefault(f, []).insert(0, text)
    for ref, text in unit['nested']:
        by_nested.setdefault(ref, []).insert(0, text)
    # nested first (offsets), then file-level modules
    for ref, codes in by_nested.items():
        fname, _, path = ref.partition('::')
        fpath = os.path.join(scratch.dir, 'src', fname.strip())
        src = RustSource(fpath)
        sp = src.find(path.strip())
        off = sp.body[0] + 1
        new = src.text[:off] + '\n// ---- injected by /verif (cfg(kani) only) ----\n' + '\n'.join(codes) + '\n// ---- end injected ----\n' + src.text[off:]
        open(fpath, 'w', encoding='utf-8').write(new)
    for f, codes in by_file.items():
        fpath = os.path.join(scratch.dir, 'src', f)
        with open(fpath, 'a', encoding='utf-8') as fh:
            fh.write('\n\n#[cfg(any(kani, mathcat_verif_replay))]\n#[allow(unused_imports, dead_code)]\nmod verif_kani_%s {\n    use super::*;\n%s\n}\n' % (unit['unit'].lower(), '\n'.join(codes)))
    return names


def covers_info(unit, h):
    out = []
    for c in h.get('covers', []):
        fname, _, path = c.partition('::')
        try:
            sp = RustSource(os.path.join(REPO, 'src', fname.strip())).find(path.strip())
            out.append({'emitted': '%s[%s]' % (path.strip().split('::')[-1].strip().replace('fn ', ''), h['name']), 'file': 'src/' + fname.strip(), 'path': path.strip(), 'line': sp.line(), 'sha': sp.sha(),
                        'contract': {'requires': h.get('requires', ''), 'ensures': h.get('ensures', '')}})
        except CutError as e:
            out.append({'emitted': c, 'file': fname, 'path': path, 'error': str(e)})
    return out


def native_replay(scratch, fn_name, replay_input, timeout=900):
    """run the injected #[test] replay_<name> natively (repository toolchain) on the counterexample"""
    test = fn_name.replace('verif_', 'replay_', 1)
    rc, out, wall = run_cmd(['cargo', 'test', '--offline', '--lib', test, '--', '--nocapture'], scratch.dir, timeout,
                            env={'RUSTFLAGS': '--cfg mathcat_verif_replay', 'VERIF_REPLAY_INPUT': replay_input, 'CARGO_TARGET_DIR': os.path.join(scratch.dir, 'target-native')})
    ran = re.search(r'test \S*' + re.escape(test) + r' \.\.\. (\w+)', out)
    return {'cmd': 'RUSTFLAGS="--cfg mathcat_verif_replay" VERIF_REPLAY_INPUT=%s cargo test --lib %s' % (replay_input, test), 'outcome': ran.group(1) if ran else 'not-run',
            'panic': (re.search(r"panicked at [^\n]*\n[^\n]*", out) or [None])[0], 'wall_s': round(wall, 1),
            'confirms_violation': bool(ran and ran.group(1) == 'FAILED')}


def run_crate_unit(unit, tier, seed, scratch=None, do_canaries=True, only=None):
    own = scratch is None
    res = {'unit': unit['unit'], 'engine': 'kani', 'properties': unit.get('properties'), 'failures': [], 'canaries': [], 'functions': [], 'bounded': [],
           'assumptions': ['[kani] error-chain built with default-features = false (no backtrace capture); otherwise the crate is compiled unchanged',
                           '[kani] CBMC/kissat bit-precise semantics of the Kani MIR translation; std library code is executed symbolically, not specified'],
           'obligations': 0, 'discharged': 0}
    res['assumptions'] += unit.get('gen_assumptions', [])
    t0 = time.time()
    try:
        if own:
            scratch = Scratch(unit['unit'])
        names = inject(scratch, unit, tier, only)
        if not names:
            res.update(status='pass', note='no harness in this tier', wall_s=0)
            return res
        cmd = ['cargo', 'kani'] + KANI_BASE + ['-j', str(min(JOBS, max(1, len(names))))]
        for n, (fn, h) in names.items():
            cmd += ['--harness', fn]
        tmo = max(h.get('timeout', 300) for _, h in names.values()) * (1 + len(names) // JOBS) + 240
        rc, out, wall = run_cmd(cmd, scratch.dir, tmo, mem_gb=56)
        res['checker_cmd'] = 'CARGO_NET_OFFLINE=true ' + ' '.join(cmd) + '   (in a scratch copy of /repo with harnesses injected under #[cfg(kani)])'
        parsed = parse_kani_output(out)
        # a failed harness is re-run alone to obtain Kani's concrete counterexample (playback is incompatible with -j)
        for n, (fn, h) in names.items():
            for k in [k for k in parsed if (k.endswith('::' + fn) or k == fn) and parsed[k]['status'] == 'failed']:
                rc2, out2, w2 = run_cmd(['cargo', 'kani'] + KANI_FLAGS + ['--harness', fn], scratch.dir, h.get('timeout', 300) + 240, mem_gb=56)
                p2 = parse_kani_output(out2)
                for k2, v2 in p2.items():
                    if k2 == k and v2.get('playback_text'):
                        parsed[k]['playback_text'] = v2['playback_text']
        status = 'pass'
        notes = []
        if not parsed:
            status = 'inconclusive'
            err = re.findall(r'^error(?:\[E\d+\])?: .*$', out, flags=re.M)
            notes.append('kani produced no harness result (rc=%s): %s' % (rc, '; '.join(err[:3]) or out[-600:]))
        for n, (fn, h) in names.items():
            full = [k for k in parsed if k.endswith('::' + fn) or k == fn]
            info = covers_info(unit, h)
            bounded = 'unwind' in h and 'complete' not in h
            if not full:
                status = 'inconclusive' if status != 'violation' else status
                notes.append('harness %s: no result (timeout/memory/compile error)' % n)
                for c in info:
                    c.update(success=None, bounded=bounded); res['functions'].append(c)
                continue
            pr = parsed[full[0]]
            ok = pr['status'] == 'success'
            for c in info:
                c.update(success=ok, time_ms=(pr['time_s'] or 0) * 1000, bounded=bounded); res['functions'].append(c)
            if bounded:
                res['bounded'].append({'harness': n, 'bound': 'unwind(%d)' % h['unwind'], 'status': pr['status'], 'covers': h.get('covers')})
            else:
                res['obligations'] += 1
                res['discharged'] += 1 if ok else 0
            if pr['status'] == 'failed':
                if pr['unwinding_failure'] and all('unwinding' in f['check'] for f in pr['failed_checks']):
                    status = 'inconclusive' if status != 'violation' else status
                    notes.append('harness %s: unwinding bound too small' % n)
                    continue
                cex = decode_playback(pr.get('playback_text', ''), h['inputs']) if pr.get('playback_text') else None
                nat = None
                if cex and 'nested' not in h:
                    nat = native_replay(scratch, fn, cex['replay_input'])
                api = None
                if cex and h.get('api'):
                    if h.get('api_map'):
                        cex['named']['ch'] = h['api_map'].get(cex['replay_input'], '?')
                    api = replay_api_template(h['api'], cex)
                status = 'violation'
                for fc in pr['failed_checks'] or [{'check': 'verification failed', 'file': '', 'line': 0, 'in': ''}]:
                    res['failures'].append({'fn': n, 'label': re.sub(r'\W+', '_', fc['check'])[:60].strip('_'), 'kind': 'kani check failed', 'message': fc['check'],
                                            'rendered': 'Kani: %s (%s:%s in %s)\n%s' % (fc['check'], fc['file'], fc['line'], fc['in'], pr.get('playback_text', '')),
                                            'counterexample': cex, 'native_replay': nat or api})
            elif pr['status'] is None:
                status = 'inconclusive' if status != 'violation' else status
                notes.append('harness %s: no verdict' % n)
        res.update(status=status, note='; '.join(notes), wall_s=time.time() - t0, solver_ms={n: (parsed.get(k, {}).get('time_s') or 0) * 1000 for k in parsed for n in [k.split('::')[-1]]})
        # canaries: mutate the scratch copy, re-run the expected harness, it must fail
        if do_canaries and status == 'pass':
            todo = unit['canaries'] if tier == 'thorough' else unit['canaries'][:1]
            for c in todo:
                fpath = os.path.join(scratch.dir, 'src', c['file'])
                orig = open(fpath, encoding='utf-8').read()
                rule, rx, rp = vunit.parse_subst(c['subst'])
                try:
                    new = vunit.apply_subst(orig, 'CANARY', rx, rp, [], c['file'])
                except CutError as e:
                    res['canaries'].append({'canary': c['name'], 'ok': False, 'note': str(e)}); continue
                open(fpath, 'w', encoding='utf-8').write(new)
                fn = names.get(c['expect'], (None,))[0]
                if fn is None:
                    open(fpath, 'w', encoding='utf-8').write(orig)
                    res['canaries'].append({'canary': c['name'], 'ok': True, 'note': 'harness %s not in this tier; skipped' % c['expect'], 'skipped': True}); continue
                rc, out, wall = run_cmd(['cargo', 'kani'] + KANI_FLAGS + ['--harness', fn], scratch.dir, names[c['expect']][1].get('timeout', 300) + 240)
                open(fpath, 'w', encoding='utf-8').write(orig)
                p2 = parse_kani_output(out)
                st = [v['status'] for k, v in p2.items() if k.endswith(fn)]
                cex = None
                for k, v in p2.items():
                    if k.endswith(fn) and v.get('playback_text'):
                        cex = decode_playback(v['playback_text'], names[c['expect']][1]['inputs'])
                res['canaries'].append({'canary': c['name'], 'mutation': c['subst'], 'in': c['file'], 'expected_to_fail': c['expect'], 'ok': st == ['failed'],
                                        'counterexample': cex and cex['named'], 'note': '' if st == ['failed'] else 'harness verdict: %s' % st})
            if any(not c['ok'] for c in res['canaries']):
                res['status'] = 'inconclusive'
                res['note'] = 'canary did not fail as required: ' + ', '.join(c['canary'] for c in res['canaries'] if not c['ok'])
        return res
    finally:
        if own and scratch is not None:
            scratch.cleanup()


# ---------------------------------------------------------------------------------------------------------------
# stand-alone mode: a generator (python) writes a self-contained .rs from extracted source text; `kani file.rs`
# ---------------------------------------------------------------------------------------------------------------
def run_standalone_unit(unit, tier, seed):
    import importlib.util
    res = {'unit': unit['unit'], 'engine': 'kani-standalone', 'properties': unit.get('properties'), 'failures': [], 'canaries': [], 'functions': [], 'bounded': [],
           'assumptions': [], 'obligations': 0, 'discharged': 0}
    t0 = time.time()
    genpath = os.path.join(ROOT, 'kani', unit['generators'][0][0])
    spec = importlib.util.spec_from_file_location('gen_' + unit['unit'], genpath)
    mod = importlib.util.module_from_spec(spec)
    spec.loader.exec_module(mod)
    wd = tempfile.mkdtemp(prefix='mathcat-verif-k2-%s-' % unit['unit'])
    try:
        def one(mutation=None, only_harness=None):
            g = mod.generate(REPO, mutation)         # -> {'rs': text, 'harnesses': [{name, inputs, covers, requires, ensures, decode}], 'assumptions': [...], 'dropped': [...]}
            path = os.path.join(wd, unit['unit'].lower() + '.rs')
            open(path, 'w', encoding='utf-8').write(g['rs'])
            hs = [h for h in g['harnesses'] if not (tier == 'quick' and h.get('tier') == 'thorough')]
            if only_harness:
                hs = [h for h in hs if h['name'] == only_harness]
            cmd = ['kani', path] + KANI_BASE + ['-j', str(min(JOBS, max(1, len(hs))))]
            for h in hs:
                cmd += ['--harness', h['name']]
            rc, out, wall = run_cmd(cmd, wd, max(h.get('timeout', 300) for h in hs) * (1 + len(hs) // JOBS) + 120, mem_gb=56)
            parsed = parse_kani_output(out)
            for h in (hs if not only_harness else []):
                for k in [k for k in parsed if k.endswith(h['name']) and parsed[k]['status'] == 'failed']:
                    rc2, out2, w2 = run_cmd(['kani', path] + KANI_FLAGS + ['--harness', h['name']], wd, h.get('timeout', 300) + 120, mem_gb=56)
                    for k2, v2 in parse_kani_output(out2).items():
                        if k2 == k and v2.get('playback_text'):
                            parsed[k]['playback_text'] = v2['playback_text']
            return g, hs, cmd, parsed, out
        g, hs, cmd, parsed, out = one()
        res['checker_cmd'] = ' '.join(cmd) + '   (file generated from the current text of /repo/src by kani/%s)' % unit['generators'][0][0]
        res['assumptions'] = g.get('assumptions', [])
        res['rewrites'] = [{'rule': 'K2', 'what': d, 'count': 1, 'in': unit['unit']} for d in g.get('dropped', [])]
        status, notes = 'pass', []
        if not parsed:
            status = 'inconclusive'
            notes.append('kani produced no harness result: ' + '; '.join(re.findall(r'^error.*$', out, flags=re.M)[:3]) + out[-300:])
        for h in hs:
            full = [k for k in parsed if k.endswith(h['name'])]
            bounded = bool(h.get('bounded'))
            cov = h.get('covers', [])
            if not full:
                status = 'inconclusive' if status != 'violation' else status
                notes.append('harness %s: no result' % h['name'])
                continue
            pr = parsed[full[0]]
            ok = pr['status'] == 'success'
            for c in cov:
                res['functions'].append(dict(c, emitted='%s[%s]' % (c.get('name', '?'), h['name']), success=ok, time_ms=(pr['time_s'] or 0) * 1000, bounded=bounded,
                                             contract={'requires': h.get('requires', ''), 'ensures': h.get('ensures', '')}))
            if bounded:
                res['bounded'].append({'harness': h['name'], 'bound': h['bounded'], 'status': pr['status']})
            else:
                res['obligations'] += 1
                res['discharged'] += 1 if ok else 0
            if pr['status'] == 'failed':
                status = 'violation'
                cex = decode_playback(pr.get('playback_text', ''), h.get('inputs', [])) if pr.get('playback_text') else None
                if cex and h.get('decode'):
                    cex['meaning'] = h['decode'](cex['named'])
                api = None
                if cex and h.get('api'):
                    api = replay_api_script(h['api'](cex))
                for fc in pr['failed_checks'] or [{'check': 'verification failed', 'file': '', 'line': 0, 'in': ''}]:
                    res['failures'].append({'fn': h['name'], 'label': re.sub(r'\W+', '_', fc['check'])[:60].strip('_'), 'kind': 'kani check failed', 'message': fc['check'],
                                            'rendered': 'Kani: %s (%s:%s)\n%s' % (fc['check'], fc['file'], fc['line'], pr.get('playback_text', '')),
                                            'counterexample': cex, 'native_replay': api})
            elif pr['status'] is None:
                status = 'inconclusive' if status != 'violation' else status
                notes.append('harness %s: no verdict' % h['name'])
        res.update(status=status, note='; '.join(notes), wall_s=time.time() - t0)
        if status == 'pass':
            cans = getattr(mod, 'CANARIES', [])
            for c in (cans if tier == 'thorough' else cans[:1]):
                try:
                    g2, hs2, cmd2, p2, out2 = one(mutation=c, only_harness=c['expect'])
                    st = [v['status'] for k, v in p2.items() if k.endswith(c['expect'])]
                    res['canaries'].append({'canary': c['name'], 'mutation': c.get('what'), 'expected_to_fail': c['expect'], 'ok': st == ['failed'], 'note': '' if st == ['failed'] else 'verdict %s' % st})
                except CutError as e:
                    res['canaries'].append({'canary': c['name'], 'ok': False, 'note': str(e)})
            if any(not c['ok'] for c in res['canaries']):
                res['status'] = 'inconclusive'
                res['note'] = 'canary did not fail as required: ' + ', '.join(c['canary'] for c in res['canaries'] if not c['ok'])
        return res
    finally:
        shutil.rmtree(wd, ignore_errors=True)


def run_units(names, tier='quick', seed=0, prop=None):
    out = []
    crate_units = []
    for n in names:
        u = parse_kspec(os.path.join(ROOT, 'kani', n + '.kspec'))
        if u['mode'] == 'standalone':
            try:
                out.append(run_standalone_unit(u, tier, seed))
            except CutError as e:
                out.append({'unit': u['unit'], 'engine': 'kani-standalone', 'status': 'inconclusive', 'note': 'extraction: %s' % e, 'obligations': 0, 'discharged': 0,
                            'failures': [], 'canaries': [], 'functions': [], 'assumptions': []})
        else:
            crate_units.append(u)
    # crate units share one scratch copy (one build of the dependencies)
    if crate_units:
        scratch = None
        try:
            scratch = Scratch(prop or 'k')
            base = {}
            for u in crate_units:
                # each unit is injected into a pristine copy of the files it touches
                touched = set([f for f, _ in u['helpers']] + [h.get('file') or h['nested'].split('::')[0].strip() for h in u['harnesses']] + [r.split('::')[0].strip() for r, _ in u['nested']])
                for f in touched:
                    p = os.path.join(scratch.dir, 'src', f)
                    if f not in base:
                        base[f] = open(p, encoding='utf-8').read()
                    open(p, 'w', encoding='utf-8').write(base[f])
                try:
                    out.append(run_crate_unit(u, tier, seed, scratch=scratch))
                except CutError as e:
                    out.append({'unit': u['unit'], 'engine': 'kani', 'status': 'inconclusive', 'note': 'extraction: %s' % e, 'obligations': 0, 'discharged': 0,
                                'failures': [], 'canaries': [], 'functions': [], 'assumptions': []})
                for f in touched:
                    open(os.path.join(scratch.dir, 'src', f), 'w', encoding='utf-8').write(base[f])
        finally:
            if scratch:
                scratch.cleanup()
    return out


# ---------------------------------------------------------------------------------------------------------------
# replay through the public API (driver tools/replay_api, built against /repo)
# ---------------------------------------------------------------------------------------------------------------
def build_replay_api():
    tgt = os.path.join(ROOT, '.cache', 'replay-target')
    rc, out, wall = run_cmd(['cargo', 'build', '--offline'], os.path.join(ROOT, 'tools', 'replay_api'), 1200, env={'CARGO_TARGET_DIR': tgt})
    exe = os.path.join(tgt, 'debug', 'replay_api')
    return exe if rc == 0 and os.path.exists(exe) else None


def run_replay_api(script_path):
    exe = build_replay_api()
    if not exe:
        return None
    rc, out, wall = run_cmd([exe, script_path], ROOT, 300)
    return out


def replay_api_script(script_text):
    d = tempfile.mkdtemp(prefix='mathcat-verif-api-')
    try:
        p = os.path.join(d, 'script')
        open(p, 'w', encoding='utf-8').write(script_text)
        out = run_replay_api(p)
        return {'api_script': script_text, 'api_output': out}
    finally:
        shutil.rmtree(d, ignore_errors=True)


def replay_api_template(template, cex):
    s = template
    for k, v in cex['named'].items():
        if isinstance(v, dict):
            s = s.replace('{%s}' % k, v.get('char') or '').replace('{%s.u32}' % k, str(v['u32']))
        else:
            s = s.replace('{%s}' % k, str(v))
    return replay_api_script(s.replace('\\t', '\t').replace('\\n', '\n'))


def replay_file(path):
    d = json.load(open(path, encoding='utf-8'))
    print(json.dumps({k: d.get(k) for k in ('property', 'obligation', 'counterexample', 'native_replay')}, indent=1, ensure_ascii=False, default=str))
    print('\n'.join(str(x) for x in d.get('verifier_output', []))[:4000])
    return 0
