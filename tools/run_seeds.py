#!/usr/bin/env python3
"""apply every seeded change under /verif/seeded/<id>/patch.diff to /repo, run the checks, record which obligations fail,
undo the change.  Writes seeded/<id>/meta.json (detection part) and prints a matrix."""
import os, sys, json, re, subprocess, glob
ROOT = os.path.dirname(os.path.dirname(os.path.abspath(__file__)))
sys.path.insert(0, os.path.join(ROOT, 'lib'))
import registry
KANI_FILES = {'C18': 'canonicalize.rs', 'C20': 'braille.rs', 'C07': 'speech.rs', 'C13': 'tts.rs'}
only = sys.argv[1:]
rows = []
for d in sorted(glob.glob(os.path.join(ROOT, 'seeded', '*'))):
    sid = os.path.basename(d)
    if only and sid not in only:
        continue
    patch = os.path.join(d, 'patch.diff')
    if not os.path.exists(patch):
        continue
    files = set(re.findall(r'^\+\+\+ b/src/(\S+)', open(patch).read(), re.M))
    subprocess.run(['git', '-C', '/repo', 'checkout', '--', '.'], check=True)
    ap = subprocess.run(['git', '-C', '/repo', 'apply', patch], capture_output=True, text=True)
    if ap.returncode != 0:
        rows.append((sid, 'patch does not apply to the current tree: ' + ap.stderr.strip()[:200], [])); continue
    res = {}
    try:
        for prop in registry.PROPS:
            env = dict(os.environ)
            if not (prop in KANI_FILES and KANI_FILES[prop] in files):
                env['VERIF_SKIP_KANI'] = '1'
            p = subprocess.run([os.path.join(ROOT, 'check'), prop, '--tier', 'quick'], capture_output=True, text=True, env=env, cwd=ROOT)
            failed = re.findall(r'^failed obligation: (\S+)', p.stdout, re.M)
            und = re.findall(r'^unit (\S+)\s+\S+\s+inconclusive.*?(?:s )(.*)$', p.stdout, re.M)
            res[prop] = {'exit': p.returncode, 'failed_obligations': failed, 'undecided': [u[0] + ': ' + u[1][:160] for u in und]}
    finally:
        subprocess.run(['git', '-C', '/repo', 'checkout', '--', '.'], check=True)
    det = sorted(set(o for r in res.values() for o in r['failed_obligations']))
    und = sorted(set(u for r in res.values() for u in r['undecided']))
    status = 'DETECTED' if det else ('UNDECIDED' if und else 'MISSED')
    rows.append((sid, status, det or und))
    mp = os.path.join(d, 'meta.json')
    meta = json.load(open(mp)) if os.path.exists(mp) else {}
    meta['detection'] = {'status': status, 'failed_obligations': det, 'undecided_units': und,
                         'per_check_exit': {k: v['exit'] for k, v in res.items()},
                         'how': 'git -C /repo apply seeded/%s/patch.diff ; ./check <each claimed property> --tier quick ; git -C /repo checkout -- .' % sid}
    json.dump(meta, open(mp, 'w'), indent=1, ensure_ascii=False)
for r in rows:
    print('%-7s %-10s %s' % (r[0], r[1], '; '.join(r[2])[:300]))
