#!/usr/bin/env python3
"""apply every seeded change under /verif/seeded/<id>/patch.diff to /repo, run the checks, record which obligations fail,
undo the change.  Writes seeded/<id>/meta.json (detection part) and prints a matrix."""
import os, sys, json, re, subprocess, glob
ROOT = os.path.dirname(os.path.dirname(os.path.abspath(__file__)))
sys.path.insert(0, os.path.join(ROOT, 'lib'))
import registry
KANI_UNIT_FILE = {'U18a': 'canonicalize.rs', 'U20a': 'braille.rs', 'U07b': 'speech.rs', 'U13a': 'tts.rs', 'U03a': 'canonicalize.rs', 'U17a': 'interface.rs entities.in', 'U08a': 'navigate.rs'}
only = [a for a in sys.argv[1:] if not a.startswith('--')]
RESUME = '--resume' in sys.argv
import vunit, kunit
def files_of(prop):
    fs = set()
    for u in registry.PROPS[prop].get('verus', []):
        for sec in vunit.parse_spec(os.path.join(ROOT, 'contracts', u + '.spec')):
            if sec.kind in ('fn', 'item'):
                fs.add(sec.arg.split('::')[0].strip())
    for k in registry.PROPS[prop].get('kani', []):
        fs.update(KANI_UNIT_FILE.get(k, '').split())
    for b in registry.PROPS[prop].get('bounded', []):
        fs.add({'B17a': 'interface.rs', 'B13b': 'tts.rs', 'B02a': 'pretty_print.rs'}.get(b, ''))
    return fs
PROP_FILES = {p: files_of(p) for p in registry.PROPS}
rows = []
for d in sorted(glob.glob(os.path.join(ROOT, 'seeded', '*'))):
    sid = os.path.basename(d)
    if only and sid not in only:
        continue
    patch = os.path.join(d, 'patch.diff')
    if not os.path.exists(patch):
        continue
    files = set(re.findall(r'^\+\+\+ b/src/(\S+)', open(patch).read(), re.M))
    if RESUME and os.path.exists(os.path.join(d, 'meta.json')) and 'detection' in json.load(open(os.path.join(d, 'meta.json'))):
        m0 = json.load(open(os.path.join(d, 'meta.json')))['detection']
        rows.append((sid, m0['status'], m0['failed_obligations'] or m0['undecided_units'])); continue
    subprocess.run(['git', '-C', '/repo', 'checkout', '--', '.'], check=True)
    ap = subprocess.run(['git', '-C', '/repo', 'apply', patch], capture_output=True, text=True)
    if ap.returncode != 0:      # a later fix: commit changed a context line next to the seeded edit -- retry with less context
        ap = subprocess.run(['git', '-C', '/repo', 'apply', '-C1', patch], capture_output=True, text=True)
    if ap.returncode != 0:
        rows.append((sid, 'patch does not apply to the current tree: ' + ap.stderr.strip()[:200], [])); continue
    res = {}
    try:
        for prop in registry.PROPS:
            if not (PROP_FILES[prop] & files) and prop != sid.split('_')[0]:
                continue
            env = dict(os.environ)
            if not ({f for k in registry.PROPS[prop].get('kani', []) if not (k == 'U03a') for f in KANI_UNIT_FILE.get(k, '').split()} & files):
                env['VERIF_SKIP_KANI'] = '1'
            p = subprocess.run([os.path.join(ROOT, 'check'), prop, '--tier', 'quick'], capture_output=True, text=True, env=env, cwd=ROOT)
            failed = re.findall(r'^failed obligation: (\S+)', p.stdout, re.M)
            und = re.findall(r'^unit (\S+)\s+\S+\s+inconclusive.*?(?:s )(.*)$', p.stdout, re.M)
            res[prop] = {'exit': p.returncode, 'failed_obligations': failed, 'undecided': [u[0] + ': ' + u[1][:160] for u in und]}
    finally:
        subprocess.run(['git', '-C', '/repo', 'checkout', '--', '.'], check=True)
    det = sorted(set(o for r in res.values() for o in r['failed_obligations']))
    und = sorted(set(u for r in res.values() for u in r['undecided']))
    status = 'DETECTED' if det else ('UNDECIDED' if und else 'MISSED')
    rows.append((sid, status, det or und))
    mp = os.path.join(d, 'meta.json')
    meta = json.load(open(mp)) if os.path.exists(mp) else {}
    meta['detection'] = {'status': status, 'failed_obligations': det, 'undecided_units': und,
                         'per_check_exit': {k: v['exit'] for k, v in res.items()},
                         'how': 'git -C /repo apply seeded/%s/patch.diff ; ./check <each claimed property> --tier quick ; git -C /repo checkout -- .' % sid}
    json.dump(meta, open(mp, 'w'), indent=1, ensure_ascii=False)
for r in rows:
    print('%-7s %-10s %s' % (r[0], r[1], '; '.join(r[2])[:300]))
