#!/bin/bash
# confirm_seed.sh <prop> <n> : confirm a seeded change in its scratch worktree /tmp/seed_<prop> and store it under /verif/seeded/<prop>_<n>/
# (round 2: SEED_WT_PREFIX=/tmp/seed2_ SEED_N_OFFSET=2)
# checks: patch applies, suite has regressions=0 with the patch, demo fails with the patch, demo passes without it
P=$1; N=$2; WT=${SEED_WT_PREFIX:-/tmp/seed_}$P; OUT=/verif/seeded/${P}_$((N+${SEED_N_OFFSET:-0}))
cd $WT || exit 2
git checkout -q -- src; rm -f tests/seed_demo_*.rs
mkdir -p $OUT
res() { echo "$1" >> $OUT/confirm.log; }
: > $OUT/confirm.log
git apply --check SEED/patch$N.diff || { res "patch does not apply"; exit 1; }
git apply SEED/patch$N.diff
res "== baseline with patch"
CARGO_BUILD_JOBS=6 python3 /verif/tools/baseline.py $WT > /tmp/seed_${P}_base$N.log 2>&1; tail -3 /tmp/seed_${P}_base$N.log >> $OUT/confirm.log
BASE_OK=$(grep -c "regressions=0" /tmp/seed_${P}_base$N.log)
DEMO=SEED/demo$N.rs
if [ -f $DEMO ]; then
  cp $DEMO tests/seed_demo_$N.rs
  res "== demo with patch"
  CARGO_BUILD_JOBS=6 cargo test --offline --test seed_demo_$N > /tmp/seed_${P}_demo${N}_with.log 2>&1; W=$?
  grep -E "^test |test result" /tmp/seed_${P}_demo${N}_with.log >> $OUT/confirm.log
  git checkout -q -- src
  res "== demo without patch"
  CARGO_BUILD_JOBS=6 cargo test --offline --test seed_demo_$N > /tmp/seed_${P}_demo${N}_without.log 2>&1; WO=$?
  grep -E "^test |test result" /tmp/seed_${P}_demo${N}_without.log >> $OUT/confirm.log
  rm -f tests/seed_demo_$N.rs
  cp $DEMO $OUT/demo.rs
else
  res "no demo$N.rs (unit-test demo?)"; W=0; WO=1; ls SEED >> $OUT/confirm.log
  git checkout -q -- src
fi
cp SEED/patch$N.diff $OUT/patch.diff
cp SEED/notes.md $OUT/notes.md 2>/dev/null
if [ "$BASE_OK" = "1" ] && [ $W -ne 0 ] && [ $WO -eq 0 ]; then res "CONFIRMED"; else res "NOT CONFIRMED base_ok=$BASE_OK with=$W without=$WO"; fi
tail -1 $OUT/confirm.log
