#!/bin/bash
cd /verif
for p in C01 C02 C03 C04 C05 C07 C08 C09 C10 C11 C12 C13 C16 C17 C18 C19 C20; do
  s=$(date +%s); out=$(CARGO_NET_OFFLINE=true ./check $p --tier quick 2>&1); rc=$?; e=$(date +%s)
  echo "$p rc=$rc $((e-s))s :: $(echo "$out" | tail -1)"
  echo "$out" | grep "KNOWN-FINDING\|VIOLATION\|inconclusive"
done
echo ALLDONE
