//! replay_api: executes a script of public MathCAT API calls against the real library (/repo) and prints one
//! result line per call.  Script: one call per line, TAB separated fields, escapes \n \t \\ .
//! Output per call:  OK\t<value> | ERR\t<message> | PANIC\t<message>   (values escaped the same way)
use libmathcat::interface::*;
use std::io::Read;
use std::panic;

fn unesc(s: &str) -> String {
    let mut out = String::new();
    let mut it = s.chars();
    while let Some(c) = it.next() {
        if c == '\\' {
            match it.next() { Some('n') => out.push('\n'), Some('t') => out.push('\t'), Some('\\') => out.push('\\'),
                              Some(o) => { out.push('\\'); out.push(o) }, None => out.push('\\') }
        } else { out.push(c) }
    }
    out
}
fn esc(s: &str) -> String { s.replace('\\', "\\\\").replace('\n', "\\n").replace('\t', "\\t") }

fn run(f: &[String]) -> std::result::Result<String, String> {
    let a = |i: usize| f.get(i).cloned().unwrap_or_default();
    let e = |e: libmathcat::errors::Error| errors_to_string(&e);
    match f[0].as_str() {
        "set_rules_dir" => set_rules_dir(a(1)).map(|_| String::new()).map_err(e),
        "set_mathml" => set_mathml(a(1)).map_err(e),
        "set_preference" => set_preference(a(1), a(2)).map(|_| String::new()).map_err(e),
        "get_preference" => get_preference(a(1)).map_err(e),
        "get_spoken_text" => get_spoken_text().map_err(e),
        "get_overview_text" => get_overview_text().map_err(e),
        "get_braille" => get_braille(a(1)).map_err(e),
        "get_navigation_braille" => get_navigation_braille().map_err(e),
        "do_navigate_command" => do_navigate_command(a(1)).map_err(e),
        "do_navigate_keypress" => do_navigate_keypress(a(1).parse().unwrap_or(0), a(2) == "1", a(3) == "1", a(4) == "1", a(5) == "1").map_err(e),
        "set_navigation_node" => set_navigation_node(a(1), a(2).parse().unwrap_or(0)).map(|_| String::new()).map_err(e),
        "get_navigation_mathml" => get_navigation_mathml().map(|(s, o)| format!("{}|{}", s, o)).map_err(e),
        "get_navigation_mathml_id" => get_navigation_mathml_id().map(|(s, o)| format!("{}|{}", s, o)).map_err(e),
        "get_braille_position" => get_braille_position().map(|(s, o)| format!("{}|{}", s, o)).map_err(e),
        "get_navigation_node_from_braille_position" => get_navigation_node_from_braille_position(a(1).parse().unwrap_or(0)).map(|(s, o)| format!("{}|{}", s, o)).map_err(e),
        other => Err(format!("replay_api: unknown call {}", other)),
    }
}

fn main() {
    let mut script = String::new();
    match std::env::args().nth(1) {
        Some(p) => script = std::fs::read_to_string(p).expect("script file"),
        None => { std::io::stdin().read_to_string(&mut script).unwrap(); }
    }
    panic::set_hook(Box::new(|_| {}));
    let rules = std::env::var("MATHCAT_RULES_DIR").unwrap_or("/repo/Rules".to_string());
    let _ = set_rules_dir(rules);
    for line in script.lines() {
        if line.trim().is_empty() || line.starts_with('#') { continue; }
        let f: Vec<String> = line.split('\t').map(unesc).collect();
        let r = panic::catch_unwind(|| run(&f));
        match r {
            Ok(Ok(v)) => println!("OK\t{}", esc(&v)),
            Ok(Err(m)) => println!("ERR\t{}", esc(&m)),
            Err(p) => {
                let msg = if let Some(s) = p.downcast_ref::<&str>() { s.to_string() }
                          else if let Some(s) = p.downcast_ref::<String>() { s.clone() } else { "?".to_string() };
                println!("PANIC\t{}", esc(&msg));
            }
        }
    }
}
