#!/usr/bin/env python3
"""prints the two generated tables of DESIGN.md Part I (units per property; seed matrix) from the registry, the contract files,
the evidence of the last run and seeded/*/meta.json"""
import os, sys, json, glob, re
ROOT = os.path.dirname(os.path.dirname(os.path.abspath(__file__)))
sys.path.insert(0, os.path.join(ROOT, 'lib'))
import registry, vunit
def fns_of(u):
    out = []
    for sec in vunit.parse_spec(os.path.join(ROOT, 'contracts', u + '.spec')):
        if sec.kind == 'fn':
            reg = sec.one('region')
            nm = sec.arg.split('::')[-1].strip().replace('fn ', '')
            if reg:
                m = re.search(r'as\s+fn\s+(\w+)', reg[1]); out.append('%s[%s]' % (nm, m.group(1) if m else 'region'))
            else:
                out.append(nm)
    return out
which = sys.argv[1] if len(sys.argv) > 1 else 'both'
if which in ('units', 'both'):
    print('| id | units (V = Verus on extracted text; K = Kani in the real crate; K2 = stand-alone Kani on extracted text/tables) | obligations discharged (quick) |')
    print('|---|---|---|')
    for p in sorted(registry.PROPS):
        c = registry.PROPS[p]
        cells = []
        for u in c.get('verus', []):
            cells.append('V %s: %s' % (u, ', '.join('`%s`' % f for f in fns_of(u))))
        for k in c.get('kani', []):
            cells.append('K %s' % k)
        ev = os.path.join(ROOT, 'evidence', p + '.json')
        ob = ''
        if os.path.exists(ev):
            e = json.load(open(ev)); ob = '%s/%s' % (e['coverage']['discharged'], e['coverage']['obligations'])
        print('| %s | %s | %s |' % (p, '; '.join(cells), ob))
if which in ('seeds', 'both'):
    print()
    print('| seed | change (needs) | verdict | failed obligation(s) / reason |')
    print('|---|---|---|---|')
    n = {'DETECTED': 0, 'UNDECIDED': 0, 'MISSED': 0}
    for d in sorted(glob.glob(os.path.join(ROOT, 'seeded', '*'))):
        m = json.load(open(os.path.join(d, 'meta.json'))); det = m.get('detection', {})
        st = det.get('status', '?'); n[st] = n.get(st, 0) + 1
        why = '; '.join(det.get('failed_obligations') or det.get('undecided_units') or []) or 'no contract reaches it'
        print('| %s | %s (%s) | %s | %s |' % (m['id'], m['change'].replace('|', '\\|'), m['needs_to_manifest'].replace('|', '\\|'), st, why.replace('|', '\\|')[:260]))
    print()
    print('totals:', n)
