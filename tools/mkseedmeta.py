#!/usr/bin/env python3
"""mkseedmeta.py <seed id> <change> <needs_to_manifest> : writes seeded/<id>/meta.json for a change confirmed by tools/confirm_seed.sh"""
import sys, json, os
ROOT = os.path.dirname(os.path.dirname(os.path.abspath(__file__)))
sid, change, needs = sys.argv[1:4]
d = os.path.join(ROOT, 'seeded', sid)
verdict = open(os.path.join(d, 'confirm.log')).read().strip().split('\n')[-1]
meta = {'id': sid, 'property': sid.split('_')[0], 'change': change, 'needs_to_manifest': needs,
        'source': 'written by a fresh sub-agent (round ' + os.environ.get('SEED_ROUND', '2') + ') that was given only the property text and its own scratch worktree (nothing from /verif); full description in notes.md',
        'confirmed_by_me': {'verdict': verdict, 'ran': 'tools/confirm_seed.sh in the scratch worktree: git apply --check; pinned suite with the patch (python3 tools/baseline.py <worktree>: regressions=0 required); demo test with the patch (must fail) and without it (must pass)', 'log': 'confirm.log'}}
json.dump(meta, open(os.path.join(d, 'meta.json'), 'w'), indent=1, ensure_ascii=False)
print(sid, verdict)
