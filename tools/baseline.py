#!/usr/bin/env python3
"""Run the repository's pinned suite (guard off) and compare with /root/.vp/BASELINE.json stable_pass.
usage: baseline.py [repo_dir]   exit 0 iff every stable_pass test passes."""
import json, os, subprocess, sys, xml.etree.ElementTree as ET
repo = sys.argv[1] if len(sys.argv) > 1 else "/repo"
base = json.load(open("/root/.vp/BASELINE.json"))
env = dict(os.environ, CARGO_NET_OFFLINE="true")
cmd = ["cargo", "nextest", "run", "--workspace", "--no-fail-fast", "--tool-config-file", "pb:/w/lib/nextest.toml",
       "--profile", "pb", "--test-threads", "8", "--offline"]
junit = os.path.join(repo, "target/nextest/pb/junit.xml")
if os.path.exists(junit): os.remove(junit)
p = subprocess.run(cmd, cwd=repo, env=env, stdout=subprocess.PIPE, stderr=subprocess.STDOUT, text=True)
if not os.path.exists(junit):
    print(p.stdout[-3000:]); print("baseline: no junit produced (build failure?)"); sys.exit(2)
passed, failed = set(), set()
for tc in ET.parse(junit).getroot().iter("testcase"):
    tid = (tc.get("classname") or "") + "::" + (tc.get("name") or "")
    (failed if (tc.find("failure") is not None or tc.find("error") is not None) else passed).add(tid)
passed -= failed
missing = sorted(set(base["stable_pass"]) - passed)
print(f"baseline: stable_pass={len(base['stable_pass'])} passed_now={len(passed)} failed_now={len(failed)} regressions={len(missing)}")
for m in missing[:40]: print("  REGRESSION", m)
sys.exit(1 if missing else 0)
