#!/usr/bin/env python3
"""regenerate /verif/MANIFEST.json from MANIFEST.base.json and lib/registry.py"""
import json, os, sys
ROOT = os.path.dirname(os.path.dirname(os.path.abspath(__file__)))
sys.path.insert(0, os.path.join(ROOT, 'lib'))
import registry
m = json.load(open(os.path.join(ROOT, 'MANIFEST.base.json')))
ids = [json.loads(l)['id'] for l in open(os.path.join(ROOT, 'properties.jsonl'))]
m['checks'] = []
for pid in ids:
    if pid in registry.PROPS:
        c = registry.PROPS[pid]
        m['checks'].append({
            'property_id': pid,
            'quick_cmd': './check %s --tier quick' % pid,
            'thorough_cmd': './check %s --tier thorough' % pid,
            'evidence_file': 'evidence/%s.json' % pid,
            'replay_cmd_template': './check %s --replay {path}' % pid,
            'engine': '+'.join((['V'] if c.get('verus') else []) + (['K'] if c.get('kani') else [])),
            'level_claimed': {'category': 'proof', 'text': c['level_text'], 'design_ref': 'DESIGN.md section 3, ' + pid},
            'level_note': c['level_note'],
            'technique': c['technique'],
        })
for e in m['engines']:
    e['serves_properties'] = [p for p in ids if p in registry.PROPS and ((e['name'] == 'V' and registry.PROPS[p].get('verus')) or (e['name'] == 'K' and registry.PROPS[p].get('kani')))]
m['not_applicable'] = [{'property_id': p, 'reason': registry.NOT_APPLICABLE.get(p, 'not yet under contract in this build; see DESIGN.md')} for p in ids if p not in registry.PROPS]
json.dump(m, open(os.path.join(ROOT, 'MANIFEST.json'), 'w'), indent=1, ensure_ascii=False)
try:
    import jsonschema
except ImportError:
    import subprocess; sys.exit(subprocess.call(["python3-vt", "-c", "import json,jsonschema; jsonschema.validate(json.load(open(\"/verif/MANIFEST.json\")), json.load(open(\"/root/.vp/MANIFEST.schema.json\"))); print(\"MANIFEST.json valid\")"]))
jsonschema.validate(m, json.load(open('/root/.vp/MANIFEST.schema.json')))
print('MANIFEST.json: %d checks, %d not applicable; valid' % (len(m['checks']), len(m['not_applicable'])))
