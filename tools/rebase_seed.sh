#!/bin/bash
# rebase_seed.sh <seed-id> : a stored seed whose patch no longer applies to /repo HEAD (a later fix: commit touched its context) is re-applied
# with patch(1) fuzz in a scratch worktree, the rebased diff is re-confirmed there (suite regressions=0 with it, demo fails with it and passes
# without it) and only then written back to seeded/<id>/patch.diff (the old one is kept as patch.orig.diff).  The worktree is removed at the end.
ID=$1; S=/verif/seeded/$ID; WT=/tmp/rb_$ID
git -C /repo worktree remove --force $WT 2>/dev/null; rm -rf $WT
git -C /repo worktree add -q --detach $WT HEAD || exit 2
cd $WT
LOG=$S/confirm.log
echo "== rebased onto $(git rev-parse --short HEAD)" > $LOG.new
if ! patch -p1 --fuzz=3 --no-backup-if-mismatch < $S/patch.diff >> $LOG.new 2>&1; then echo "REBASE FAILED $ID"; cat $LOG.new; git -C /repo worktree remove --force $WT; exit 1; fi
find . -name '*.orig' -delete
git diff > /tmp/rb_$ID.diff
echo "== baseline with patch" >> $LOG.new
CARGO_BUILD_JOBS=8 python3 /verif/tools/baseline.py $WT > /tmp/rb_${ID}_base.log 2>&1; tail -3 /tmp/rb_${ID}_base.log >> $LOG.new
BASE_OK=$(grep -c "regressions=0" /tmp/rb_${ID}_base.log)
W=0; WO=1
if [ -f $S/demo.rs ]; then
  cp $S/demo.rs tests/seed_demo_rb.rs
  echo "== demo with patch" >> $LOG.new
  CARGO_BUILD_JOBS=8 cargo test --offline --test seed_demo_rb > /tmp/rb_${ID}_with.log 2>&1; W=$?
  grep -E "^test |test result" /tmp/rb_${ID}_with.log >> $LOG.new
  git checkout -q -- src
  echo "== demo without patch" >> $LOG.new
  CARGO_BUILD_JOBS=8 cargo test --offline --test seed_demo_rb > /tmp/rb_${ID}_without.log 2>&1; WO=$?
  grep -E "^test |test result" /tmp/rb_${ID}_without.log >> $LOG.new
fi
if [ "$BASE_OK" = "1" ] && [ $W -ne 0 ] && [ $WO -eq 0 ]; then
  echo "CONFIRMED" >> $LOG.new
  [ -f $S/patch.orig.diff ] || cp $S/patch.diff $S/patch.orig.diff
  cp /tmp/rb_$ID.diff $S/patch.diff; mv $LOG.new $LOG
  echo "REBASED+CONFIRMED $ID"
else
  echo "NOT CONFIRMED base_ok=$BASE_OK with=$W without=$WO" >> $LOG.new; echo "NOT CONFIRMED $ID"; tail -5 $LOG.new
fi
cd /; git -C /repo worktree remove --force $WT; rm -rf $WT /tmp/rb_${ID}*.log /tmp/rb_$ID.diff
