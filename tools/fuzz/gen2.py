import random, itertools, sys
random.seed(int(sys.argv[1]) if len(sys.argv)>1 else 1)
leaves = ['<mi>x</mi>','<mn>2</mn>','<mo>+</mo>','<mo>(</mo>','<mo>)</mo>','<mo>|</mo>','<mo>[</mo>','<mo>]</mo>','<mo>{</mo>','<mo>}</mo>','<mi></mi>','<mn></mn>','<mo></mo>','<mtext> </mtext>','<mtext></mtext>',
 '<mspace width="1em"/>','<mspace width="-0.1em"/>','<mn>1,234</mn>','<mn>1 234</mn>','<mn>3.5</mn>','<mn>3,5</mn>','<mn>,</mn>','<mn>.</mn>','<mo>,</mo>','<mo>.</mo>','<mo>;</mo>','<mo>:</mo>',
 '<mi>sin</mi>','<mi>cos</mi>','<mi>arc</mi>','<mo>arc</mo>','<mi>lim</mi>','<mi>log</mi>','<mi>ln</mi>','<mo>&#x2061;</mo>','<mo>&#x2062;</mo>','<mo>&#x2063;</mo>','<mo>&#x2064;</mo>',
 '<mi mathvariant="bold">v</mi>','<mi mathvariant="double-struck">R</mi>','<mi mathvariant="script">L</mi>','<mi mathvariant="fraktur">g</mi>','<mi mathvariant="normal">d</mi>',
 '<mo>!</mo>','<mo>-</mo>','<mo>&#x2212;</mo>','<mo>--</mo>','<mo>&#xB1;</mo>','<mi>H</mi>','<mi>O</mi>','<mi>Na</mi>','<mi>Cl</mi>','<mi>C</mi>','<mi>He</mi>','<mo>=</mo>','<mo>&#x2192;</mo>','<mo>&#x21CC;</mo>','<mo>&lt;</mo>','<mo>&#x2264;</mo>',
 '<mo>&#x2032;</mo>','<mo>&#x2033;</mo>',"<mo>'</mo>",'<mo>*</mo>','<mo>&#xB0;</mo>','<mo>...</mo>','<mo>&#x2026;</mo>','<mo>&#x22EF;</mo>','<mtext>&#xA0;</mtext>','<mtext>and</mtext>','<mtext>if </mtext>','<mtext>&amp;</mtext>','<mi>&lt;</mi>',
 '<mi>ABC</mi>','<mi>AB</mi>','<mo>&#x2220;</mo>','<mo>&#x25B3;</mo>','<mn>VII</mn>','<mi>xi</mi>','<ms>s</ms>','<mglyph alt="g"/>','<mi>&#x3C0;</mi>','<mi>&#x1D44E;</mi>','<mo>&#x222B;</mo>','<mo>&#x2211;</mo>','<mo>&#x220F;</mo>','<mi>d</mi>','<mi>e</mi>','<mi>i</mi>',
 '<mo>/</mo>','<mo>&#xD7;</mo>','<mo>&#x22C5;</mo>','<mo>&#x2225;</mo>','<mo>||</mo>','<mo>&#x2223;</mo>','<mn>0</mn>','<mn>10</mn>','<mn>1/2</mn>','<mn>&#xBD;</mn>','<mn>-3</mn>','<mn>2nd</mn>','<mi>_</mi>','<mo>_</mo>','<mo>?</mo>','<mtext>?</mtext>','<mo>%</mo>','<mi>$</mi>','<mo>&#x2205;</mo>','<mi>&#x221E;</mi>',
 '<mo stretchy="false">(</mo>','<mo fence="true">|</mo>','<mo form="prefix">-</mo>','<mo>&#x2329;</mo>','<mo>&#x232A;</mo>','<mo>&#x27E8;</mo>','<mo>&#x27E9;</mo>','<mo>&#x2016;</mo>','<mo>&#x2308;</mo>','<mo>&#x2309;</mo>',
 '<none/>','<mrow/>']
intents=['','','','','','','',' intent="foo($a,$b)"',' intent="$x"',' intent=":prefix"',' intent="_($a)"',' intent="f:infix(1,2)"',' intent="bad("',' arg="a"',' arg="b"',' arg="x"',' intent="binomial($a,$b)"',' id="dup"',' id="i1"', ' data-chem-formula="3"', ' intent="x:literal"',' intent=":structure"']
def attr(): return random.choice(intents)
def expr(d):
    if d<=0 or random.random()<0.35:
        l=random.choice(leaves)
        if random.random()<0.12 and l.startswith('<m') and '/>' not in l:
            i=l.index('>'); l=l[:i]+attr()+l[i:]
        return l
    k=random.choice(['mrow','mrow','mrow','mfrac','msqrt','mroot','msub','msup','msubsup','munder','mover','munderover','mmultiscripts','mtable','mfenced','mstyle','mpadded','mphantom','menclose','merror','semantics','mtd','mtr','mfrac2','maction','chem','num','abs','func'])
    def kids(n): return ''.join(expr(d-1) for _ in range(n))
    a=attr()
    if k=='mrow': return '<mrow%s>'%a+kids(random.choice([0,1,2,3,4,5,6]))+'</mrow>'
    if k=='mfrac2': return '<mfrac linethickness="0"%s>%s</mfrac>'%(a,kids(2))
    if k in ('mfrac','mroot','msub','msup','munder','mover'): return '<%s%s>%s</%s>'%(k,a,kids(2),k)
    if k in ('msubsup','munderover'): return '<%s%s>%s</%s>'%(k,a,kids(3),k)
    if k=='mmultiscripts':
        n=random.choice([1,3,5]); pre=random.choice([0,0,2,4])
        s=kids(n)+('<mprescripts/>'+kids(pre) if pre or random.random()<0.2 else '')
        return '<mmultiscripts%s>%s</mmultiscripts>'%(a,s)
    if k=='mtable':
        nc=random.choice([0,1,2,3])
        rows=''.join('<%s>%s</%s>'%(r,''.join('<mtd>%s</mtd>'%expr(d-2) for _ in range(nc if random.random()<0.8 else random.choice([0,1,2]))),r) for r in [random.choice(['mtr','mtr','mtr','mlabeledtr']) for _ in range(random.choice([0,1,2,3]))])
        t='<mtable%s>%s</mtable>'%(random.choice(['',' columnalign="left"',' intent=":system-of-equations"',' intent=":lines"']),rows)
        if random.random()<0.4: t='<mrow><mo>%s</mo>%s<mo>%s</mo></mrow>'%(random.choice(['(','[','{','|']),t,random.choice([')',']','','|']))
        return t
    if k=='mfenced':
        a2=random.choice(['',' open=""',' open="[" close=""',' separators=""',' separators=";,"',' open="|" close="|"',' open="&lt;" close="&gt;"',' separators=" "'])
        return '<mfenced%s>%s</mfenced>'%(a2,kids(random.choice([0,1,2,3])))
    if k=='semantics': return '<semantics>%s<annotation encoding="tex">x</annotation>%s</semantics>'%(expr(d-1), random.choice(['','<annotation-xml encoding="MathML-Content"><ci>x</ci></annotation-xml>']))
    if k=='menclose': return '<menclose notation="%s">%s</menclose>'%(random.choice(['box','radical','longdiv','updiagonalstrike','','bottom','circle top','phasorangle']),kids(random.choice([0,1,2])))
    if k in ('mtd','mtr'): return '<mtable><mtr><mtd>%s</mtd></mtr></mtable>'%expr(d-1)
    if k=='maction': return '<mstyle displaystyle="true" mathcolor="red">%s</mstyle>'%kids(random.choice([1,2]))
    if k=='chem':
        parts=[]
        for _ in range(random.choice([1,2,3])):
            el=random.choice(['H','O','C','Na','Cl','Fe','N','S','e','n','p'])
            r=random.random()
            if r<0.3: parts.append('<mi>%s</mi>'%el)
            elif r<0.6: parts.append('<msub><mi>%s</mi><mn>%d</mn></msub>'%(el,random.choice([2,3,4])))
            elif r<0.8: parts.append('<msup><mi>%s</mi><mo>%s</mo></msup>'%(el,random.choice(['+','-','2+'])))
            else: parts.append('<mmultiscripts><mi>%s</mi><mprescripts/><mn>6</mn><mn>12</mn></mmultiscripts>'%el)
        if random.random()<0.3: parts.insert(random.randrange(len(parts)+1), random.choice(['<mo>+</mo>','<mo>&#x2192;</mo>','<mo>-</mo>','<mo>=</mo>','<mo>(</mo>','<mo>)</mo>','<mn>2</mn>']))
        return '<mrow>'+''.join(parts)+'</mrow>' if random.random()<0.7 else ''.join(parts)
    if k=='num':
        return ''.join(random.choice(['<mn>%d</mn>'%random.randrange(1000),'<mo>,</mo>','<mo>.</mo>','<mtext> </mtext>','<mspace width="0.2em"/>','<mn>000</mn>','<mo>&#xA0;</mo>']) for _ in range(random.choice([2,3,4,5])))
    if k=='abs':
        return '<mo>|</mo>'+kids(random.choice([1,2]))+'<mo>|</mo>'+(kids(1) if random.random()<0.5 else '')
    if k=='func':
        return random.choice(['<mi>f</mi>','<mi>sin</mi>','<mi>g</mi>','<msup><mi>f</mi><mo>&#x2032;</mo></msup>','<msup><mi>sin</mi><mn>2</mn></msup>','<msup><mi>cos</mi><mrow><mo>-</mo><mn>1</mn></mrow></msup>'])+random.choice(['','<mo>&#x2061;</mo>'])+random.choice(['<mo>(</mo>%s<mo>)</mo>'%kids(1),'<mrow><mo>(</mo>%s<mo>,</mo>%s<mo>)</mo></mrow>'%(kids(1),kids(1)),kids(1)])
    return '<%s>%s</%s>'%(k,kids(random.choice([0,1,2])),k)
N=int(sys.argv[2]) if len(sys.argv)>2 else 300
navs=['ZoomIn','ZoomOut','MoveNext','MovePrevious','ZoomInAll','ZoomOutAll','MoveStart','MoveEnd','MoveLineStart','MoveLineEnd','ReadNext','ReadPrevious','ReadCurrent','DescribeNext','DescribeCurrent','WhereAmI','WhereAmIAll','ToggleZoomLockUp','ToggleZoomLockDown','ToggleSpeakMode','MoveCellNext','MoveCellPrevious','MoveCellUp','MoveCellDown','MoveColumnStart','MoveColumnEnd','ReadCellCurrent','SetPlacemarker1','MoveTo1','Read1','Describe1','MoveLastLocation','MoveNextZoom','MovePreviousZoom','Exit','bogus']
combos=[('ClearSpeak','Nemeth','en'),('SimpleSpeak','UEB','en'),('ClearSpeak','CMU','es'),('SimpleSpeak','ASCIIMath','de'),('ClearSpeak','LaTeX','fr'),('SimpleSpeak','Vietnam','vi'),('ClearSpeak','Swedish','sv'),('SimpleSpeak','Finnish','fi')]
random.shuffle(combos)
for style,code,lang in combos[:4]:
    print('set_preference\tSpeechStyle\t'+style); print('set_preference\tBrailleCode\t'+code); print('set_preference\tLanguage\t'+lang)
    print('set_preference\tNavMode\t'+random.choice(['Enhanced','Simple','Character'])); print('set_preference\tVerbosity\t'+random.choice(['Terse','Medium','Verbose']))
    print('set_preference\tDecimalSeparators\t'+random.choice(['.',',','Auto'])); print('set_preference\tBlockSeparators\t'+random.choice([', ','. ',' ']))
    print('set_preference\tBrailleNavHighlight\t'+random.choice(['Off','EndPoints','All','FirstChar']))
    print('set_preference\tTTS\t'+random.choice(['None','SSML','SAPI5']))
    for i in range(N//4):
        e='<math>'+''.join(expr(3) for _ in range(random.choice([1,1,2,3])))+'</math>'
        print('set_mathml\t'+e); print('get_spoken_text'); print('get_braille\t'); print('get_overview_text')
        for _ in range(random.choice([2,4,8])):
            print('do_navigate_command\t'+random.choice(navs))
            r=random.random()
            if r<0.2: print('get_navigation_braille')
            elif r<0.3: print('get_navigation_mathml')
            elif r<0.4: print('get_braille_position')
            elif r<0.5: print('get_navigation_node_from_braille_position\t%d'%random.choice([0,1,2,3,5,8,13,40]))
            elif r<0.55: print('do_navigate_keypress\t%d\t%d\t%d\t0\t0'%(random.choice([37,38,39,40,13,32,36,35,8,48,49,90]),random.random()<0.3,random.random()<0.3))
