import random, itertools
random.seed(int(__import__('sys').argv[1]) if len(__import__('sys').argv)>1 else 1)
leaves = ['<mi>x</mi>','<mn>2</mn>','<mo>+</mo>','<mo>(</mo>','<mo>)</mo>','<mo>|</mo>','<mi></mi>','<mn></mn>','<mo></mo>','<mtext> </mtext>','<mtext></mtext>','<mspace width="1em"/>','<none/>','<mprescripts/>','<mrow/>','<mn>1,234</mn>','<mn>3.5</mn>','<mn>,</mn>','<mi>sin</mi>','<mo>&#x2061;</mo>','<mo>&#x2062;</mo>','<mi mathvariant="bold">v</mi>','<mo>!</mo>','<mo>-</mo>','<mi>H</mi>','<mo>=</mo>','<mo>&#x2032;</mo>','<mo>.</mo>','<mtext>&#xA0;</mtext>','<mi>ABC</mi>','<mo>&#x2220;</mo>','<mn>VII</mn>','<ms>s</ms>','<mglyph alt="g"/>','<mi>&#x3C0;</mi>','<mo>&#x222B;</mo>','<mo>&#x2211;</mo>','<mi>d</mi>']
def expr(d):
    if d<=0 or random.random()<0.35: return random.choice(leaves)
    k=random.choice(['mrow','mrow','mfrac','msqrt','mroot','msub','msup','msubsup','munder','mover','munderover','mmultiscripts','mtable','mfenced','mstyle','mpadded','mphantom','menclose','merror','semantics','mtd','mtr'])
    def kids(n): return ''.join(expr(d-1) for _ in range(n))
    if k=='mrow': return '<mrow>'+kids(random.choice([0,1,2,3,4,5]))+'</mrow>'
    if k in ('mfrac','mroot','msub','msup','munder','mover'): return '<%s>%s</%s>'%(k,kids(2),k)
    if k in ('msubsup','munderover'): return '<%s>%s</%s>'%(k,kids(3),k)
    if k=='mmultiscripts':
        n=random.choice([1,3,5]); pre=random.choice([0,0,2,4])
        s=kids(n)+('<mprescripts/>'+kids(pre) if pre or random.random()<0.2 else '')
        return '<mmultiscripts>%s</mmultiscripts>'%s
    if k=='mtable':
        rows=''.join('<%s>%s</%s>'%(r,''.join('<mtd>%s</mtd>'%expr(d-2) for _ in range(random.choice([0,1,2]))),r) for r in [random.choice(['mtr','mtr','mlabeledtr']) for _ in range(random.choice([0,1,2]))])
        return '<mtable>%s</mtable>'%rows
    if k=='mfenced':
        a=random.choice(['',' open=""',' open="[" close=""',' separators=""',' separators=";,"',' open="|" close="|"'])
        return '<mfenced%s>%s</mfenced>'%(a,kids(random.choice([0,1,2,3])))
    if k=='semantics': return '<semantics>%s<annotation encoding="tex">x</annotation></semantics>'%expr(d-1)
    if k=='menclose': return '<menclose notation="%s">%s</menclose>'%(random.choice(['box','radical','longdiv','updiagonalstrike','']),kids(random.choice([0,1,2])))
    if k in ('mtd','mtr'): return '<mtable><mtr><mtd>%s</mtd></mtr></mtable>'%expr(d-1)
    return '<%s>%s</%s>'%(k,kids(random.choice([0,1,2])),k)
N=int(__import__('sys').argv[2]) if len(__import__('sys').argv)>2 else 300
for style,code in itertools.islice(itertools.cycle([('ClearSpeak','Nemeth'),('SimpleSpeak','UEB'),('ClearSpeak','CMU'),('SimpleSpeak','ASCIIMath')]), 4):
    print('set_preference\tSpeechStyle\t'+style); print('set_preference\tBrailleCode\t'+code)
    for i in range(N//4):
        e='<math>'+''.join(expr(3) for _ in range(random.choice([1,1,2,3])))+'</math>'
        print('set_mathml\t'+e); print('get_spoken_text'); print('get_braille\t'); print('do_navigate_command\tZoomIn'); print('do_navigate_command\tMoveNext'); print('get_navigation_braille'); print('get_overview_text')
